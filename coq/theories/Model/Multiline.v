(* Character-level model of how an operation string travels through Python source text:

     client.py  _generate_operation_str_assign :  gql([Constant(l + "\n") for l in op.split("\n")])
     ast.unparse                                :  repr of every constant, written back to back
     utils.format_multiline_strings             :  regex search + convert_to_multiline_string
                                                   (since 0f971a2: the adjacent literals are evaluated and
                                                   re-emitted escaped; old text replacement as fall-back)
     CPython                                    :  evaluation of the resulting literal(s)

   Strings are byte lists (UTF-8); bytes >= 0x80 stand for printable non-ASCII characters, which
   repr keeps as they are.  One source line at a time (repr escapes every line break, so a statement
   produced by ast.unparse is one physical line).  Executable definitions only. *)
From Coq Require Import List String Ascii Bool Arith NArith.
From AC Require Import Base.Strs Base.Sexp.
Import ListNotations.
Local Open Scope char_scope.
Local Open Scope nat_scope.
Local Open Scope list_scope.

Definition NL : ascii := ascii_of_nat 10.
Definition SQ : ascii := "'".
Definition DQ : ascii := """".
Definition BS : ascii := "\".
Definition SP : ascii := " ".
Definition EQc : ascii := "=".

Definition ceq (a b : ascii) : bool := Ascii.eqb a b.
Definition has (c : ascii) (s : chars) : bool := existsb (ceq c) s.

(* ---- Python repr(str) ---- *)
Definition hexdigit (n : nat) : ascii := nth n (s2l "0123456789abcdef") "0".

Definition repr_char (q c : ascii) : chars :=
  let n := code c in
  if ceq c q || ceq c BS then [BS; c]
  else if n =? 9 then [BS; "t"]
  else if n =? 10 then [BS; "n"]
  else if n =? 13 then [BS; "r"]
  else if (n <? 32) || (n =? 127) then [BS; "x"; hexdigit (n / 16); hexdigit (n mod 16)]
  else [c].

Definition repr_quote (s : chars) : ascii := if has SQ s && negb (has DQ s) then DQ else SQ.

Definition py_repr (s : chars) : chars :=
  let q := repr_quote s in q :: flat_map (repr_char q) s ++ [q].

(* one generated constant: the line and its newline *)
Definition piece (l : chars) : chars := py_repr (l ++ [NL]).
(* ast.unparse of a Python list of Constant nodes: every element traversed, nothing in between *)
Definition pieces (lines : list chars) : chars := flat_map piece lines.

Definition spaces (n : nat) : chars := repeat SP n.

(* the two statements the generator emits *)
Definition client_prefix : chars := spaces 8 ++ s2l "query = gql(".
Definition client_suffix : chars := [")"].
Definition stmt (pre suf : chars) (lines : list chars) : chars := pre ++ pieces lines ++ suf.

(* ---- the regex of format_multiline_strings (anything, '=', anything lazily, then two or more groups
   quote-anything-quote-blanks) on one line ---- *)
(* Python re \s on str, ASCII part *)
Definition is_ws (c : ascii) : bool :=
  let n := code c in (n =? 32) || ((9 <=? n) && (n <=? 13)) || ((28 <=? n) && (n <=? 31)).

Fixpoint take_while (p : ascii -> bool) (l : chars) : chars :=
  match l with
  | [] => []
  | c :: r => if p c then c :: take_while p r else []
  end.

(* (text up to and including the first c, rest) *)
Fixpoint upto (c : ascii) (l : chars) : option (chars * chars) :=
  match l with
  | [] => None
  | x :: r => if ceq x c then Some ([x], r)
              else match upto c r with Some (a, b) => Some (x :: a, b) | None => None end
  end.

(* one more group  \s* ' .*? '  right here (lazy: up to the next quote) *)
Definition next_group (l : chars) : option (chars * chars) :=
  let w := take_while is_ws l in
  match drop_while is_ws l with
  | c :: r => if ceq c SQ
              then match upto SQ r with Some (g, rest) => Some (w ++ c :: g, rest) | None => None end
              else None
  | [] => None
  end.

(* inside group 1 (after its opening quote): the first quote after which a second group fits;
   backtracking extends the lazy '.*?' of group 1 quote by quote *)
Fixpoint find_j (l : chars) : option (chars * chars) :=
  match l with
  | [] => None
  | c :: r =>
      if ceq c SQ
      then match next_group r with
           | Some (g, rest) => Some (c :: g, rest)
           | None => match find_j r with Some (a, b) => Some (c :: a, b) | None => None end
           end
      else match find_j r with Some (a, b) => Some (c :: a, b) | None => None end
  end.

(* greedy {2,}: keep taking groups while one fits *)
Fixpoint chain (fuel : nat) (l : chars) : chars * chars :=
  match fuel with
  | O => ([], l)
  | S f => match next_group l with
           | Some (g, rest) => let '(a, b) := chain f rest in (g ++ a, b)
           | None => ([], l)
           end
  end.

(* first match starting at the beginning of l: (matched text, rest) *)
Definition find_match (l : chars) : option (chars * chars) :=
  match upto EQc l with
  | None => None
  | Some (a, r0) =>
      match upto SQ r0 with
      | None => None
      | Some (b, r1) =>
          match find_j r1 with
          | None => None
          | Some (g, r2) =>
              let '(gs, r3) := chain (List.length r2) r2 in
              let w := take_while is_ws r3 in
              Some (a ++ b ++ g ++ gs ++ w, drop_while is_ws r3)
          end
      end
  end.

(* re.search of a quote of either kind, anything, a quote of either kind, in the rest of the line:
   from the first quote character to the last one (needs two) *)
Definition isq (c : ascii) : bool := ceq c SQ || ceq c DQ.

Fixpoint upto_q (l : chars) : option (chars * chars) :=
  match l with
  | [] => None
  | x :: r => if isq x then Some ([x], r)
              else match upto_q r with Some (a, b) => Some (x :: a, b) | None => None end
  end.

Fixpoint split_last_q (l : chars) : option (chars * chars) :=
  match l with
  | [] => None
  | c :: r => match split_last_q r with
              | Some (a, b) => Some (c :: a, b)
              | None => if isq c then Some ([c], r) else None
              end
  end.

Definition quoted_span (t : chars) : option chars :=
  match upto_q t with
  | None => None
  | Some (a, r) => match split_last_q r with
                   | Some (b, _) => Some (last a SQ :: b)
                   | None => None
                   end
  end.

(* ---- convert_to_multiline_string: helpers and the old text replacement (now the fall-back) ---- *)
Fixpoint unescape_nl (l : chars) : chars :=
  match l with
  | [] => []
  | c :: r => match r with
              | d :: r' => if ceq c BS && ceq d "n" then NL :: unescape_nl r' else c :: unescape_nl r
              | [] => [c]
              end
  end.

Definition drop_quotes (l : chars) : chars := filter (fun c => negb (ceq c SQ)) l.

(* str.splitlines(keepends=True), line feed only (the other separators are escaped by repr) *)
Fixpoint lines_keep (l : chars) : list chars :=
  match l with
  | [] => []
  | c :: r => if ceq c NL then [c] :: lines_keep r
              else match lines_keep r with
                   | [] => [[c]]
                   | x :: xs => (c :: x) :: xs
                   end
  end.

(* str.strip() is empty *)
Definition blank (l : chars) : bool := forallb is_ws l.

(* line.strip("\n") == "": nothing but line feeds *)
Definition only_nl (l : chars) : bool := forallb (ceq NL) l.

(* textwrap.indent with the predicate of 2c2512c: every line that is not empty gets the prefix (before
   2c2512c the default predicate skipped every whitespace-only line: [blank]) *)
Definition indent_text (pre : chars) (t : chars) : chars :=
  flat_map (fun ln => if only_nl ln then ln else pre ++ ln) (lines_keep t).

Definition DQ3 : chars := [DQ; DQ; DQ].

Definition ends_with_nl (l : chars) : bool :=
  match rev l with c :: _ => ceq c NL | [] => false end.

Definition finish (joined : chars) (var_indent offset : nat) : chars :=
  let joined := if ends_with_nl joined then joined ++ DQ3 else joined ++ NL :: DQ3 in
  DQ3 ++ NL :: indent_text (spaces (var_indent + offset)) joined.

(* str.replace(old, new), old non-empty *)
Fixpoint is_prefix (p l : chars) : bool :=
  match p, l with
  | [], _ => true
  | x :: p', y :: l' => ceq x y && is_prefix p' l'
  | _ :: _, [] => false
  end.

Fixpoint replace_all (fuel : nat) (src old new : chars) : chars :=
  match fuel with
  | O => src
  | S f => if is_prefix old src then new ++ replace_all f (skipn (List.length old) src) old new
           else match src with
                | [] => []
                | c :: r => c :: replace_all f r old new
                end
  end.

(* ---- CPython: value of a sequence of adjacent string literals ---- *)
Inductive ev := EvOk (v rest : chars) | EvSyntax | EvUnsupported.

Definition hexval (c : ascii) : option nat :=
  let n := code c in
  if (48 <=? n) && (n <=? 57) then Some (n - 48)
  else if (97 <=? n) && (n <=? 102) then Some (n - 87)
  else if (65 <=? n) && (n <=? 70) then Some (n - 55)
  else None.
Definition octval (c : ascii) : option nat :=
  let n := code c in if (48 <=? n) && (n <=? 55) then Some (n - 48) else None.

(* n hex digits -> value, rest *)
Fixpoint take_hex (n : nat) (l : chars) (acc : N) : option (N * chars) :=
  match n with
  | O => Some (acc, l)
  | S n' => match l with
            | c :: r => match hexval c with Some d => take_hex n' r (acc * 16 + N.of_nat d)%N | None => None end
            | [] => None
            end
  end.

(* up to n octal digits *)
Fixpoint take_oct (n : nat) (l : chars) (acc : N) : N * chars :=
  match n with
  | O => (acc, l)
  | S n' => match l with
            | c :: r => match octval c with Some d => take_oct n' r (acc * 8 + N.of_nat d)%N | None => (acc, l) end
            | [] => (acc, l)
            end
  end.

Definition byte (n : nat) : ascii := ascii_of_nat n.
Definition byteN (n : N) : ascii := ascii_of_N n.

(* UTF-8 encoding of a code point; None: surrogate or out of range *)
Definition utf8 (cp : N) : option chars :=
  (if cp <? 128 then Some [byteN cp]
   else if cp <? 2048 then Some [byteN (192 + cp / 64); byteN (128 + cp mod 64)]
   else if (55296 <=? cp) && (cp <=? 57343) then None
   else if cp <? 65536 then Some [byteN (224 + cp / 4096); byteN (128 + (cp / 64) mod 64); byteN (128 + cp mod 64)]
   else if cp <? 1114112 then Some [byteN (240 + cp / 262144); byteN (128 + (cp / 4096) mod 64);
                                    byteN (128 + (cp / 64) mod 64); byteN (128 + cp mod 64)]
   else None)%N.

Inductive esc := EscChars (v rest : chars) | EscSyntax | EscUnsupported.

(* l is what follows a backslash *)
Definition escape (l : chars) : esc :=
  match l with
  | [] => EscSyntax
  | c :: r =>
      let n := code c in
      if n =? 10 then EscChars [] r
      else if ceq c BS || ceq c SQ || ceq c DQ then EscChars [c] r
      else if ceq c "a" then EscChars [byte 7] r
      else if ceq c "b" then EscChars [byte 8] r
      else if ceq c "f" then EscChars [byte 12] r
      else if ceq c "n" then EscChars [byte 10] r
      else if ceq c "r" then EscChars [byte 13] r
      else if ceq c "t" then EscChars [byte 9] r
      else if ceq c "v" then EscChars [byte 11] r
      else if ceq c "N" then EscUnsupported
      else if ceq c "x" then
        match take_hex 2 r 0 with
        | Some (v, r') => match utf8 v with Some b => EscChars b r' | None => EscUnsupported end
        | None => EscSyntax
        end
      else if ceq c "u" then
        match take_hex 4 r 0 with
        | Some (v, r') => match utf8 v with Some b => EscChars b r' | None => EscUnsupported end
        | None => EscSyntax
        end
      else if ceq c "U" then
        match take_hex 8 r 0 with
        | Some (v, r') => match utf8 v with Some b => EscChars b r'
                                          | None => if (1114112 <=? v)%N then EscSyntax else EscUnsupported end
        | None => EscSyntax
        end
      else match octval c with
           | Some _ => let '(v, r') := take_oct 3 l 0 in
                       match utf8 v with Some b => EscChars b r' | None => EscUnsupported end
           | None => EscChars [BS; c] r
           end
  end.

(* body of a triple-double-quoted literal: l follows the opening quotes *)
Fixpoint eval_triple (fuel : nat) (l : chars) : ev :=
  match fuel with
  | O => EvSyntax
  | S f =>
      if is_prefix DQ3 l then EvOk [] (skipn 3 l)
      else match l with
           | [] => EvSyntax
           | c :: r =>
               if ceq c BS
               then match escape r with
                    | EscChars v r' => match eval_triple f r' with
                                       | EvOk v' rest => EvOk (v ++ v') rest
                                       | e => e end
                    | EscSyntax => EvSyntax
                    | EscUnsupported => EvUnsupported
                    end
               else match eval_triple f r with
                    | EvOk v' rest => EvOk (c :: v') rest
                    | e => e end
           end
  end.

(* body of a single-line literal delimited by q *)
Fixpoint eval_short (fuel : nat) (q : ascii) (l : chars) : ev :=
  match fuel with
  | O => EvSyntax
  | S f =>
      match l with
      | [] => EvSyntax
      | c :: r =>
          if ceq c q then EvOk [] r
          else if ceq c NL then EvSyntax
          else if ceq c BS
          then match escape r with
               | EscChars v r' => match eval_short f q r' with
                                  | EvOk v' rest => EvOk (v ++ v') rest
                                  | e => e end
               | EscSyntax => EvSyntax
               | EscUnsupported => EvUnsupported
               end
          else match eval_short f q r with
               | EvOk v' rest => EvOk (c :: v') rest
               | e => e end
      end
  end.

(* blanks between adjacent literals; inside the parentheses of a call also line breaks and comments *)
Fixpoint skip_comment (l : chars) : chars :=
  match l with
  | [] => []
  | c :: r => if ceq c NL then l else skip_comment r
  end.

Fixpoint skip_blanks (fuel : nat) (paren : bool) (l : chars) : chars :=
  match fuel with
  | O => l
  | S f =>
      match l with
      | c :: r =>
          if ceq c SP || (code c =? 9) || (code c =? 12) then skip_blanks f paren r
          else if paren && ceq c NL then skip_blanks f paren r
          else if paren && ceq c "#" then skip_blanks f paren (skip_comment r)
          else if ceq c BS then match r with
                                | d :: r' => if ceq d NL then skip_blanks f paren r' else l
                                | [] => l
                                end
          else l
      | [] => []
      end
  end.

(* adjacent literals; stops (EvOk value rest) where something other than a literal follows *)
Fixpoint eval_literals (fuel : nat) (seen paren : bool) (l : chars) : ev :=
  match fuel with
  | O => EvSyntax
  | S f =>
      let l := skip_blanks (S (List.length l)) paren l in
      let one := if is_prefix DQ3 l then Some (eval_triple (S (List.length l)) (skipn 3 l))
                 else if is_prefix [SQ; SQ; SQ] l then Some EvUnsupported
                 else match l with
                      | c :: r => if ceq c SQ || ceq c DQ then Some (eval_short (S (List.length l)) c r) else None
                      | [] => None
                      end in
      match one with
      | Some (EvOk v rest) => match eval_literals f true paren rest with
                              | EvOk v' rest' => EvOk (v ++ v') rest'
                              | e => e end
      | Some e => e
      | None => if seen then EvOk [] l else EvSyntax
      end
  end.

(* ---- ast.literal_eval of the span, _escape_multiline_string_line, convert_to_multiline_string ---- *)
Inductive lev := LOk (v : chars) | LFail | LUnsupported.

Definition is_prefix_letter (c : ascii) : bool := has c (s2l "rRuUbBfF").

(* SyntaxError / ValueError -> LFail (the caller falls back); string prefixes and \N{..} are outside the model *)
Definition literal_eval (s : chars) : lev :=
  let s := drop_while (fun c => ceq c SP || (code c =? 9)) s in
  match eval_literals (S (List.length s)) false false s with
  | EvOk v [] => LOk v
  | EvOk v (c :: _) => if ceq c "#" then LOk v else if is_prefix_letter c then LUnsupported else LFail
  | EvSyntax => LFail
  | EvUnsupported => LUnsupported
  end.

(* one character of str.encode("unicode_escape") where the character is not printable or is a backslash *)
Definition esc_char (c : ascii) : chars :=
  let n := code c in
  if ceq c BS then [BS; BS]
  else if n =? 9 then [BS; "t"]
  else if n =? 10 then [BS; "n"]
  else if n =? 13 then [BS; "r"]
  else if (n <? 32) || (n =? 127) then [BS; "x"; hexdigit (n / 16); hexdigit (n mod 16)]
  else [c].

(* _escape_multiline_string_line: the characters escaped, then every run of three double quotes
   replaced by three escaped ones, left to right (escapes never contain a double quote, so the runs
   are the runs of the line itself) *)
Fixpoint esc3 (l : chars) : chars :=
  match l with
  | [] => []
  | c :: r =>
      match r with
      | d :: e :: r' => if ceq c DQ && ceq d DQ && ceq e DQ
                        then [BS; DQ; BS; DQ; BS; DQ] ++ esc3 r'
                        else esc_char c ++ esc3 r
      | _ => esc_char c ++ esc3 r
      end
  end.

(* str.split("\n") *)
Fixpoint split_nl (l : chars) : list chars :=
  match l with
  | [] => [[]]
  | c :: r => if ceq c NL then [] :: split_nl r
              else match split_nl r with
                   | x :: xs => (c :: x) :: xs
                   | [] => [[c]]
                   end
  end.

(* "\n".join *)
Fixpoint join_nl (ls : list chars) : chars :=
  match ls with
  | [] => []
  | [x] => x
  | x :: r => x ++ NL :: join_nl r
  end.

Definition convert (src : chars) (var_indent offset : nat) : option chars :=
  match literal_eval src with
  | LOk v => Some (finish (join_nl (map esc3 (split_nl v))) var_indent offset)
  | LFail => Some (finish (drop_quotes (unescape_nl src)) var_indent offset)
  | LUnsupported => None
  end.

(* ---- format_multiline_strings on one line ---- *)
Definition leading_ws (l : chars) : nat := List.length (take_while is_ws l).

(* old occurs in src (str.replace has something to replace) *)
Fixpoint occurs (old src : chars) : bool :=
  is_prefix old src || match src with [] => false | _ :: r => occurs old r end.

(* None: a span outside the model (string prefix, named escape) that str.replace would really use.
   [rest] is the source from the start of the current match to the end of the line: indentation and span are
   taken from it.  When the span does not occur in the text rewritten so far, replace leaves the text as it is
   whatever convert_to_multiline_string returned, so convert is not consulted. *)
Fixpoint format_iter (fuel : nat) (rest cur : chars) (offset : nat) : option chars :=
  match fuel with
  | O => Some cur
  | S f =>
      match find_match rest with
      | None => Some cur
      | Some (_, rest') =>
          match quoted_span rest with
          | Some span =>
              if occurs span cur then
                match convert span (leading_ws rest) offset with
                | Some new => format_iter f rest' (replace_all (S (List.length cur)) cur span new) offset
                | None => None
                end
              else format_iter f rest' cur offset
          | None => format_iter f rest' cur offset
          end
      end
  end.

Definition format_line (line : chars) (offset : nat) : option chars :=
  format_iter (S (List.length line)) line line offset.

(* the string the literals following [pre] evaluate to, and what follows them; format_line never
   alters [pre] when it contains no single quote *)
Definition eval_stmt (pre : chars) (paren : bool) (text : chars) : ev :=
  if is_prefix pre text then
    let body := skipn (List.length pre) text in eval_literals (S (List.length body)) false paren body
  else EvSyntax.

Definition embed (pre suf : chars) (paren : bool) (offset : nat) (lines : list chars) : ev :=
  match format_line (stmt pre suf lines) offset with
  | Some out => eval_stmt pre paren out
  | None => EvUnsupported
  end.

(* did the rewriter fire, and only once?  (0 = statement left as it is, 1 = one match, 2 = more) *)
Definition matches (pre suf : chars) (lines : list chars) : nat :=
  match find_match (stmt pre suf lines) with
  | None => 0
  | Some (_, rest') => match find_match rest' with None => 1 | Some _ => 2 end
  end.

(* what the operation string is: the lines joined, each with its newline *)
Definition joined (lines : list chars) : chars := flat_map (fun l => l ++ [NL]) lines.

(* ---- sexp interface ---- *)
Definition sC (l : chars) : sexp := A (l2s l).
Definition e_ev (e : ev) : sexp :=
  match e with
  | EvOk v rest => L [A "ok"; sC v; sC rest]
  | EvSyntax => L [A "syntax"]
  | EvUnsupported => L [A "unsupported"]
  end.

Definition run_multiline (e : sexp) : sexp :=
  match e with
  | L [A "repr"; A s] => sC (py_repr (s2l s))
  | L [A "stmt"; A pre; A suf; L ls] =>
      match dAll dStr ls with
      | Some ls => sC (stmt (s2l pre) (s2l suf) (map s2l ls))
      | None => sErr "multiline: cannot decode arguments"
      end
  | L [A "format"; A line; off] =>
      match dNat off with
      | Some off => sOpt sC (format_line (s2l line) off)
      | None => sErr "multiline: cannot decode arguments"
      end
  | L [A "eval"; A pre; par; A text] =>
      match dB par with
      | Some par => e_ev (eval_stmt (s2l pre) par (s2l text))
      | None => sErr "multiline: cannot decode arguments"
      end
  | L [A "embed"; A pre; A suf; par; off; L ls] =>
      match dB par, dNat off, dAll dStr ls with
      | Some par, Some off, Some ls =>
          let src := stmt (s2l pre) (s2l suf) (map s2l ls) in
          match format_line src off with
          | Some out => L [sC src; sC out; e_ev (eval_stmt (s2l pre) par out);
                           sN (matches (s2l pre) (s2l suf) (map s2l ls))]
          | None => L [sC src; A "unsupported"; e_ev EvUnsupported; sN 0]
          end
      | _, _, _ => sErr "multiline: cannot decode arguments"
      end
  | _ => sErr "multiline: bad command"
  end.
