(* Model of the response classification of the bundled base clients:
     *base_client*.py  get_data                      (identical in the four client files)
     exceptions.py      GraphQLClientGraphQLError.from_dict,
                        GraphQLClientGraphQLMultiError.from_errors_dicts
     client.py          generated method = execute ; get_data ; Model.model_validate(data)
   Executable definitions only.  A response is abstracted to its status code (any integer) and
   the result of response.json(): None when json() raises ValueError (not JSON / not decodable),
   Some j otherwise.  Python's None is JNull.  Exceptions other than the three documented ones
   (errors member truthy but not a list of objects with a message) are modelled as OCrash. *)
From Coq Require Import List String Ascii ZArith Bool.
From AC Require Import Base.Sexp Base.Json.
Import ListNotations.
Local Open Scope string_scope.

(* httpx.Response.is_success *)
Definition is_success (st : Z) : bool := (200 <=? st)%Z && (st <=? 299)%Z.

(* Python truthiness; floats arrive as repr() lexemes, the two zero floats are falsy *)
Definition float_zero (lex : string) : bool := String.eqb lex "0.0" || String.eqb lex "-0.0".
Definition py_truthy (j : json) : bool :=
  match j with
  | JFloat s => negb (float_zero s)
  | _ => truthy j
  end.

(* dict.get(k): None when absent *)
Definition jget (k : string) (kv : list (string * json)) : json :=
  match jlookup k kv with Some v => v | None => JNull end.

(* attributes of GraphQLClientGraphQLError *)
Record gerror := mk_gerror {
  ge_message : json; ge_locations : json; ge_path : json; ge_extensions : json; ge_original : json }.

Inductive exn := TypeError | KeyError.

(* GraphQLClientGraphQLError.from_dict(error):
     message=error["message"], locations=error.get("locations"), path=error.get("path"),
     extensions=error.get("extensions"), original=error *)
Definition from_dict (e : json) : exn + gerror :=
  match e with
  | JObj kv =>
      match jlookup "message" kv with
      | Some m => inr (mk_gerror m (jget "locations" kv) (jget "path" kv) (jget "extensions" kv) e)
      | None => inl KeyError                    (* error["message"] on a dict without the key *)
      end
  | _ => inl TypeError                          (* subscripting str/int/list/None with "message" *)
  end.

(* [from_dict(e) for e in l]: the first failing element raises *)
Fixpoint from_list (l : list json) : exn + list gerror :=
  match l with
  | [] => inr []
  | e :: r =>
      match from_dict e with
      | inl x => inl x
      | inr g => match from_list r with inl x => inl x | inr gs => inr (g :: gs) end
      end
  end.

(* GraphQLClientGraphQLMultiError.from_errors_dicts(errors_dicts, data): iterates whatever it is
   given; a dict iterates its keys, a str its characters, scalars are not iterable *)
Definition from_errors_dicts (errors : json) : exn + list gerror :=
  match errors with
  | JArr l => from_list l
  | JObj kv => from_list (map (fun p => JStr (fst p)) kv)
  | JStr s => if String.eqb s "" then inr [] else inl TypeError
  | _ => inl TypeError
  end.

Inductive outcome :=
| OHttpError (status : Z)                      (* GraphQLClientHttpError(status_code, response) *)
| OInvalid                                     (* GraphQLClientInvalidResponseError(response) *)
| OMulti (errs : list gerror) (data : json)    (* GraphQLClientGraphQLMultiError(errors, data) *)
| OData (d : json)                             (* returned value *)
| OCrash (x : exn).                            (* any other exception escaping get_data *)

Definition get_data (st : Z) (body : option json) : outcome :=
  if negb (is_success st) then OHttpError st else
  match body with
  | None => OInvalid                            (* response.json() raised ValueError *)
  | Some (JObj kv) =>
      if negb (jhas "data" kv) && negb (jhas "errors" kv) then OInvalid else
      let data := jget "data" kv in
      let errors := jget "errors" kv in
      if py_truthy errors then
        match from_errors_dicts errors with
        | inr errs => OMulti errs data
        | inl x => OCrash x
        end
      else OData data
  | Some _ => OInvalid                          (* not isinstance(response_json, dict) *)
  end.

(* ---- str(exception): GraphQLClientHttpError / InvalidResponseError / GraphQLError / MultiError __str__.
   None = __str__ returns a non-string (a message that is not a str) and str() raises TypeError ---- *)
Definition http_error_text : string := "HTTP status code: ".
Definition invalid_text : string := "Invalid response format.".
Definition multi_sep : string := "; ".

Definition gerror_str (g : gerror) : option string :=
  match ge_message g with JStr s => Some s | _ => None end.

Fixpoint join_opt (l : list (option string)) : option string :=
  match l with
  | [] => Some ""
  | [x] => x
  | x :: r => match x, join_opt r with Some a, Some b => Some (a ++ multi_sep ++ b) | _, _ => None end
  end.

Definition outcome_str (o : outcome) : option string :=
  match o with
  | OHttpError st => Some (http_error_text ++ z_to_string st)
  | OInvalid => Some invalid_text
  | OMulti errs _ => join_opt (map gerror_str errs)
  | _ => None
  end.

(* ---- the generated client method: data = self.get_data(response); return M.model_validate(data)
   [validate] stands for the result model's validation (C01); None = pydantic ValidationError ---- *)
Inductive mresult (V : Type) :=
| MReturn (v : V)
| MValidationError
| MRaise (o : outcome).
Arguments MReturn {V}. Arguments MValidationError {V}. Arguments MRaise {V}.

Definition client_method {V} (validate : json -> option V) (st : Z) (body : option json) : mresult V :=
  match get_data st body with
  | OData d => match validate d with Some v => MReturn v | None => MValidationError end
  | o => MRaise o
  end.

(* ---- the hypotheses of the property text, as booleans over (status, body) only ---- *)
Definition body_obj (b : option json) : option (list (string * json)) :=
  match b with Some (JObj kv) => Some kv | _ => None end.

Definition h_http (st : Z) (b : option json) : bool := negb (is_success st).
Definition h_invalid (st : Z) (b : option json) : bool :=
  is_success st &&
  match body_obj b with
  | None => true
  | Some kv => negb (jhas "data" kv) && negb (jhas "errors" kv)
  end.
Definition h_errors (st : Z) (b : option json) : bool :=
  is_success st &&
  match body_obj b with
  | Some kv => match jlookup "errors" kv with Some e => py_truthy e | None => false end
  | None => false
  end.
Definition h_data (st : Z) (b : option json) : bool :=
  is_success st &&
  match body_obj b with
  | Some kv => (jhas "data" kv || jhas "errors" kv) &&
               match jlookup "errors" kv with Some e => negb (py_truthy e) | None => true end
  | None => false
  end.

(* "errors member, when present, is spec-shaped: a list of objects each carrying a message" *)
Definition spec_error (e : json) : bool :=
  match e with JObj kv => jhas "message" kv | _ => false end.
Definition spec_errors (j : json) : bool :=
  match j with JArr l => forallb spec_error l | _ => false end.
Definition spec_body (b : option json) : bool :=
  match body_obj b with
  | Some kv => match jlookup "errors" kv with Some e => spec_errors e | None => true end
  | None => true
  end.

Definition b2n (b : bool) : nat := if b then 1 else 0.

(* ---- sexp interface ---- *)
Definition exn_name (x : exn) : string :=
  match x with TypeError => "TypeError" | KeyError => "KeyError" end.

Definition gerror_to_sexp (g : gerror) : sexp :=
  L [json_to_sexp (ge_message g); json_to_sexp (ge_locations g); json_to_sexp (ge_path g);
     json_to_sexp (ge_extensions g); json_to_sexp (ge_original g)].

Definition outcome_to_sexp (o : outcome) : sexp :=
  match o with
  | OHttpError st => L [A "http"; sZ st]
  | OInvalid => L [A "invalid"]
  | OMulti errs d => L [A "multi"; L (map gerror_to_sexp errs); json_to_sexp d]
  | OData d => L [A "data"; json_to_sexp d]
  | OCrash x => L [A "crash"; A (exn_name x)]
  end.

Definition dBody (e : sexp) : option (option json) := dOpt json_of_sexp e.

Definition run_getdata (e : sexp) : sexp :=
  match e with
  | L [A "get_data"; st; b] =>
      match dZ st, dBody b with
      | Some s, Some body =>
          L [outcome_to_sexp (get_data s body);
             L [sB (h_http s body); sB (h_invalid s body); sB (h_errors s body); sB (h_data s body)];
             sB (spec_body body);
             sOpt (fun x => A x) (outcome_str (get_data s body))]
      | _, _ => sErr "get_data: bad arguments"
      end
  | L [A "constants"] =>
      L [L [A "body_keys"; A "data"; A "errors"];
         L [A "error_probe";
            match from_dict (JObj [("message", JInt 1); ("locations", JInt 2); ("path", JInt 3); ("extensions", JInt 4)]) with
            | inr g => gerror_to_sexp g | inl _ => sErr "probe" end];
         L [A "texts"; A http_error_text; A invalid_text; A multi_sep];
         L [A "success_range"; sZ 200; sZ 299; sB (is_success 199); sB (is_success 200); sB (is_success 299); sB (is_success 300)]]
  | L [A "truthy"; j] =>
      match json_of_sexp j with Some v => sB (py_truthy v) | None => sErr "truthy: bad json" end
  | _ => sErr "getdata: bad command"
  end.
