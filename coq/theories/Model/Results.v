(* Model of ariadne_codegen/client_generators/result_fields.py and result_types.py:
   from (schema, fragments, one operation or fragment definition) to the list of generated
   result classes.  Executable definitions only.  Defects of the code are reproduced, not repaired. *)
From Coq Require Import List String Ascii Bool Arith.
From AC Require Import Base.Strs Base.Sexp Base.Json Gql.Schema Gql.Exec Py.Ann Py.Pydantic Model.Names.
Import ListNotations.
Local Open Scope string_scope.
Local Open Scope list_scope.
Infix "+++" := String.append (at level 60, right associativity).

Inductive res (X : Type) := Ok (x : X) | Err (msg : string).
Arguments Ok {X} x.
Arguments Err {X} msg.

Definition bind {X Y} (r : res X) (f : X -> res Y) : res Y :=
  match r with Ok x => f x | Err m => Err m end.
Notation "x <- r ;; k" := (bind r (fun x => k)) (at level 60, r at next level, right associativity).

Record scalar_cfg := { sc_gql : string; sc_type_name : string; sc_has_parse : bool }.

Record cfg := { cf_snake : bool; cf_scalars : list scalar_cfg }.

Definition simple_type (n : string) : option ann :=
  if String.eqb n "String" then Some AStr else
  if String.eqb n "ID" then Some AStr else
  if String.eqb n "Int" then Some AInt else
  if String.eqb n "Boolean" then Some ABool else
  if String.eqb n "Float" then Some AFloat else None.

Definition opt_if (b : bool) (a : ann) : ann := if b then AOpt a else a.

(* ---- sorting strings (Python sorted() on ASCII str) ---- *)
Fixpoint str_leb (a b : string) : bool :=
  match a, b with
  | EmptyString, _ => true
  | String _ _, EmptyString => false
  | String x a', String y b' =>
      if Nat.ltb (nat_of_ascii x) (nat_of_ascii y) then true
      else if Nat.ltb (nat_of_ascii y) (nat_of_ascii x) then false
      else str_leb a' b'
  end.

Fixpoint insert_sorted (x : string) (l : list string) : list string :=
  match l with
  | [] => [x]
  | y :: r => if str_leb x y then x :: l else y :: insert_sorted x r
  end.

Definition sort_strings (l : list string) : list string := fold_right insert_sorted [] l.

Fixpoint dedup (l : list string) : list string :=
  match l with
  | [] => []
  | x :: r => if mem x r then dedup r else x :: dedup r
  end.

(* sorted(set(l)) *)
Definition sorted_set (l : list string) : list string := sort_strings (dedup l).

Definition pascal_s (s : string) : string := l2s (pascal (s2l s)).

(* ---- result_fields.py ---- *)

Record related := { r_class : string; r_type : string }.

Record fctx := { x_related : list related; x_abstract : bool; x_enums : list string; x_scalars : list string }.

Definition ctx0 : fctx := {| x_related := []; x_abstract := false; x_enums := []; x_scalars := [] |}.
Definition ctx_app (a b : fctx) : fctx :=
  {| x_related := x_related a ++ x_related b; x_abstract := x_abstract a || x_abstract b;
     x_enums := x_enums a ++ x_enums b; x_scalars := x_scalars a ++ x_scalars b |}.

(* get_inline_fragments_from_selection_set: type conditions of the inline fragments found at the top
   level of a selection set and, through spreads, at the top level of the spread fragments.
   None in the list = inline fragment without type condition (the code dereferences it: crash). *)
Fixpoint inline_conds (fuel : nat) (frs : list fragdef) (sels : list sel) : res (list (option string)) :=
  match fuel with
  | O => Err "fuel"
  | S fuel' =>
      fold_left (fun acc s =>
        l <- acc ;;
        match s with
        | SInline (Some tc) _ _ => Ok (l ++ [Some tc])
        | SInline None _ sub =>
            (* no type condition: the fragment applies to the enclosing type; look inside it *)
            l' <- inline_conds fuel' frs sub ;; Ok (l ++ l')
        | SSpread n _ =>
            match lookup_frag frs n with
            | Some f => l' <- inline_conds fuel' frs (fr_sel f) ;; Ok (l ++ l')
            | None => Err "KeyError: fragment"
            end
        | SField _ _ _ _ _ => Ok l
        end) sels (Ok [])
  end.

(* get_fragments_on_subtype: type conditions of top-level spreads whose fragment type is a sub type *)
Definition spreads_on_subtypes (S : schema) (frs : list fragdef) (sels : list sel) (root : string)
  : res (list string) :=
  match lookup_type S root with
  | Some d =>
      if is_abstract d then
        fold_left (fun acc s =>
          l <- acc ;;
          match s with
          | SSpread n _ =>
              match lookup_frag frs n with
              | Some f => if (match lookup_type S (fr_on f) with Some _ => true | None => false end)
                             && is_sub_type S root (fr_on f)
                          then Ok (l ++ [fr_on f]) else Ok l
              | None => Err "KeyError: fragment"
              end
          | _ => Ok l
          end) sels (Ok [])
      else Ok []
  | None => Ok []
  end.

Section FieldType.
  Variable C : cfg.
  Variable S : schema.
  Variable frs : list fragdef.
  Variable fuel0 : nat.
  Variable fsub : option (list sel).    (* the selection set of the field node being typed *)

  Definition scalar_ann (n : string) (nullable : bool) : ann * fctx :=
    match simple_type n with
    | Some a => (opt_if nullable a, ctx0)
    | None =>
        match find (fun s => String.eqb (sc_gql s) n) (cf_scalars C) with
        | Some s => (opt_if nullable (ACustom (sc_type_name s) (sc_has_parse s)),
                     {| x_related := []; x_abstract := false; x_enums := []; x_scalars := [n] |})
        | None => (opt_if nullable AAny, ctx0)
        end
    end.

  Definition object_ann (tn : string) (nullable : bool) (class_name : string) (add_tn : bool) : ann * fctx :=
    let name := if add_tn then class_name +++ tn else class_name in
    (opt_if nullable (AClass name),
     {| x_related := [{| r_class := name; r_type := tn |}]; x_abstract := false; x_enums := []; x_scalars := [] |}).

  Definition interface_ann (tn : string) (nullable : bool) (class_name : string) (add_tn : bool)
    : res (ann * fctx) :=
    match fsub with
    | None => (* no selection set: no fragments *)
        let name := if add_tn then class_name +++ tn else class_name in
        Ok (opt_if nullable (AClass name),
            {| x_related := [{| r_class := name; r_type := tn |}]; x_abstract := true; x_enums := []; x_scalars := [] |})
    | Some sels =>
        ics <- inline_conds fuel0 frs sels ;;
        fos <- spreads_on_subtypes S frs sels tn ;;
        match ics, fos with
        | [], [] =>
            let name := if add_tn then class_name +++ tn else class_name in
            Ok (opt_if nullable (AClass name),
                {| x_related := [{| r_class := name; r_type := tn |}]; x_abstract := true;
                   x_enums := []; x_scalars := [] |})
        | _, _ =>
            if existsb (fun o => match o with None => true | Some _ => false end) ics
            then Err "AttributeError: inline fragment without type condition"
            else
              (* /repo 568dfd8: a condition naming an interface which tn itself implements is not a variant *)
              let own := match lookup_type S tn with Some (DInterface ifs _) => ifs | _ => [] end in
              let conds := filter (fun c => negb (mem c own))
                                  (flat_map (fun o => match o with Some c => [c] | None => [] end) ics ++ fos) in
              let names := tn :: sorted_set conds in
              Ok (opt_if nullable (AUnion (map (fun t => AClass (class_name +++ t)) names)),
                  {| x_related := map (fun t => {| r_class := class_name +++ t; r_type := t |}) names;
                     x_abstract := true; x_enums := []; x_scalars := [] |})
        end
    end.

  Definition named_ann (tn : string) (nullable : bool) (class_name : string) (add_tn : bool)
    : res (ann * fctx) :=
    match lookup_type S tn with
    | Some DScalar => Ok (scalar_ann tn nullable)
    | Some (DInterface _ _) => interface_ann tn nullable class_name add_tn
    | Some (DObject _ _) => Ok (object_ann tn nullable class_name add_tn)
    | Some (DEnum _) =>
        Ok (opt_if nullable (AEnum tn),
            {| x_related := []; x_abstract := false; x_enums := [tn]; x_scalars := [] |})
    | Some (DUnion ms) =>
        (* every member is parsed with nullable=False, add_type_name=True; members are object types *)
        r <- fold_left (fun acc m =>
               p <- acc ;;
               match lookup_type S m with
               | Some (DObject _ _) =>
                   let '(a, c) := object_ann m false class_name true in
                   Ok (fst p ++ [a], ctx_app (snd p) c)
               | _ => Err "ParsingError: Invalid field type."
               end) ms (Ok ([], ctx0)) ;;
        let c := snd r in
        Ok (opt_if nullable (AUnion (fst r)),
            {| x_related := x_related c; x_abstract := true; x_enums := x_enums c; x_scalars := x_scalars c |})
    | Some DInput | None => Err "ParsingError: Invalid field type."
    end.

  (* parse_operation_field_type *)
  Fixpoint field_type_ann (t : gtype) (nullable : bool) (class_name : string) (add_tn : bool)
    : res (ann * fctx) :=
    match t with
    | TNamed n => named_ann n nullable class_name add_tn
    | TList t' =>
        r <- field_type_ann t' true class_name false ;;
        Ok (opt_if nullable (AList (fst r)), snd r)
    | TNonNull t' => field_type_ann t' false class_name false
    end.
End FieldType.

Definition is_opt (a : ann) : bool := match a with AOpt _ => true | _ => false end.
Definition is_union_ann (a : ann) : bool := match a with AUnion _ => true | _ => false end.

(* ---- result_types.py ---- *)

Record fnode := { fn_alias : option string; fn_name : string; fn_cond : bool;
                  fn_mixins : list string; fn_sub : option (list sel) }.

Definition typename_node : fnode :=
  {| fn_alias := None; fn_name := "__typename"; fn_cond := false; fn_mixins := []; fn_sub := None |}.

(* _unpack_fragment *)
Definition unpack_fragment (S : schema) (f : fragdef) (root : option string) : bool :=
  (match lookup_type S (fr_on f) with Some (DUnion _) => true | _ => false end)
  || (match root with Some r => negb (String.eqb (fr_on f) r) | None => false end)
  || existsb (fun s => match s with SInline _ _ _ => true | _ => false end) (fr_sel f).

(* _get_inline_fragment_root_type *)
Definition inline_root_type (S : schema) (tcond root : string) : option string :=
  match lookup_type S root with
  | None => None
  | Some d =>
      (* /repo 568dfd8: an interface's own interfaces count too *)
      if (match d with DObject ifs _ | DInterface ifs _ => mem tcond ifs | _ => false end) then Some tcond
      else if String.eqb tcond root then Some root else None
  end.

(* _resolve_selection_set: (fields in order, fragments used as mixins) *)
Definition fnode_of (al : option string) (n : string) (c : bool) (ms : list string) (sub : option (list sel))
  : fnode := {| fn_alias := al; fn_name := n; fn_cond := c; fn_mixins := ms; fn_sub := sub |}.

(* one selection of the set; [rec under' sels' root'] resolves a nested selection set (fragment body).
   under: the selection set lies inside a fragment carrying @skip/@include; fields collected there come
   out conditional, and a fragment spread there is never used as a mixin base class (its fields would
   stay required) but unpacked *)
Definition resolve_step (rec : bool -> list sel -> string -> res (list fnode * list string))
           (S : schema) (frs : list fragdef) (root : string) (under : bool)
           (acc : res (list fnode * list string)) (s : sel) : res (list fnode * list string) :=
  p <- acc ;;
  let '(fields, mixins) := p in
  match s with
  | SField al n c ms sub => Ok (fields ++ [fnode_of al n (under || c) ms sub], mixins)
  | SSpread n c =>
      match lookup_frag frs n with
      | None => Err "KeyError: fragment"
      | Some f =>
          match lookup_type S root, lookup_type S (fr_on f) with
          | Some _, Some fd =>
              if negb (under || c) && negb (unpack_fragment S f (Some root)) then Ok (fields, mixins ++ [n])
              else if String.eqb (fr_on f) root || (is_abstract fd && is_sub_type S (fr_on f) root)
              then q <- rec (under || c) (fr_sel f) root ;;
                   Ok (fields ++ fst q, mixins ++ snd q)
              else Ok (fields, mixins)
          | _, _ => Err "KeyError: type"
          end
      end
  | SInline tc c sub =>
      (* a missing type condition means the enclosing type *)
      match inline_root_type S (match tc with Some tc => tc | None => root end) root with
      | Some r => q <- rec (under || c) sub r ;; Ok (fields ++ fst q, mixins ++ snd q)
      | None => Ok (fields, mixins)
      end
  end.

Fixpoint resolve (fuel : nat) (S : schema) (frs : list fragdef) (under : bool) (sels : list sel)
         (root : string) : res (list fnode * list string) :=
  match fuel with
  | O => Err "fuel"
  | S fuel' => fold_left (resolve_step (resolve fuel' S frs) S frs root under) sels (Ok ([], []))
  end.

(* _get_fragment_bases: the fragments a fragment class inherits from, transitively *)
Definition append_bases (rec : string -> res (list string)) (acc : res (list string)) (b : string)
  : res (list string) :=
  l <- acc ;; l' <- rec b ;; Ok (l ++ l').

Fixpoint fragment_bases (fuel : nat) (S : schema) (frs : list fragdef) (name : string) : res (list string) :=
  match fuel with
  | O => Err "fuel"
  | S fuel' =>
      match lookup_frag frs name with
      | None => Err "KeyError: fragment"
      | Some f =>
          q <- resolve fuel' S frs false (fr_sel f) (fr_on f) ;;
          fold_left (append_bases (fragment_bases fuel' S frs)) (snd q) (Ok (snd q))
      end
  end.

(* _remove_inherited_fragments *)
Definition remove_inherited (fuel : nat) (S : schema) (frs : list fragdef) (mixins : list string)
  : res (list string) :=
  inh <- fold_left (append_bases (fragment_bases fuel S frs)) mixins (Ok []) ;;
  Ok (filter (fun f => negb (mem f inh)) mixins).

(* _get_typename_values for the class generated for related type tn *)
Definition typename_values (S : schema) (rel : list related) (tn : string) : list string :=
  let names := map r_type rel in
  match find (fun n => match lookup_type S n with Some d => is_abstract d | None => false end) names with
  | Some a =>
      if String.eqb a tn
      then tn :: filter (fun p => negb (mem p names)) (dedup (possible_types S a))
      else [tn]
  | None => [tn]
  end.

Definition result_flags (C : cfg) : pflags := {| f_snake := cf_snake C; f_trim := true; f_reserved := true |}.

Definition py_field_name (C : cfg) (key : string) : string :=
  if String.eqb key "__typename" then "typename__"
  else l2s (process_name (result_flags C) (s2l key)).

Definition field_key (f : fnode) : string := match fn_alias f with Some a => a | None => fn_name f end.

Definition schema_field_type (S : schema) (tn fname : string) : res gtype :=
  match lookup_type S tn with
  | Some d =>
      match type_fields d with
      | Some fs =>
          match assoc fname fs with
          | Some t => Ok t
          | None => if String.eqb fname "__typename" then Ok (TNonNull (TNamed "String"))
                    else Err "ParsingError: field not found in type"
          end
      | None => if String.eqb fname "__typename" then Ok (TNonNull (TNamed "String"))
                else Err "ParsingError: field not found in type"
      end
  | None => Err "KeyError: type"
  end.

Definition mem_state := list string.   (* _public_names *)

(* ---- _parse_type_definition, with _public_names threaded, split into named steps ---- *)

(* result of one (sub)class generation: classes, _public_names afterwards, ghost flag: true iff some
   class was skipped because its name was already in _public_names (two selection paths mangled to
   one class name, finding F22) *)
Definition ptd_res := res (list pclass * mem_state * bool).
Definition ptd_fun := mem_state -> string -> string -> list sel -> bool -> list string ->
                      option (list string) -> ptd_res.

Definition add_typename_field (add_typename : bool) (fields0 : list fnode) : list fnode :=
  if add_typename && negb (existsb (fun f => String.eqb (fn_name f) "__typename") fields0)
  then typename_node :: fields0 else fields0.

(* mixins: the fragments used as mixins; kept: those not already inherited through another one *)
Definition class_bases (mixins kept extra_bases : list string) : list string :=
  (match mixins with
   | [] => ["BaseModel"]
   | _ => map pascal_s (sorted_set kept)
   end) ++ extra_bases.

(* annotation of one field: (annotation, context, is the typename literal) *)
Definition field_ann_lit (C : cfg) (S : schema) (frs : list fragdef) (fuel' : nat)
           (tvalues : option (list string)) (f : fnode) (t : gtype) (sub_class : string)
  : res (ann * fctx * bool) :=
  match tvalues with
  | Some (v :: vs) =>
      if String.eqb (fn_name f) "__typename"
      then Ok (ALit (sort_strings (v :: vs)), ctx0, true)
      else r <- field_type_ann C S frs fuel' (fn_sub f) t true sub_class false ;;
           Ok (fst r, snd r, false)
  | _ => r <- field_type_ann C S frs fuel' (fn_sub f) t true sub_class false ;;
         Ok (fst r, snd r, false)
  end.

Definition cond_ann (is_lit cond : bool) (a0 : ann) : ann :=
  if is_lit then a0 else if cond then (if is_opt a0 then a0 else AOpt a0) else a0.

Definition mk_pfield (name key : string) (a : ann) (is_lit cond : bool) : pfield :=
  {| p_name := name;
     p_alias := if String.eqb name key then None else Some key;
     p_ann := a;
     p_default_none := negb is_lit && cond;
     p_discriminator := is_union_ann a |}.

(* the pydantic field of one resolved field node, with the context of its annotation (pure: does not
   depend on _public_names) *)
Definition field_pf (C : cfg) (S : schema) (frs : list fragdef) (fuel' : nat)
           (class_name type_name : string) (tvalues : option (list string)) (add_typename : bool) (f : fnode)
  : res (pfield * fctx) :=
  let key := field_key f in
  let name := py_field_name C key in
  t <- schema_field_type S type_name (fn_name f) ;;
  let sub_class := class_name +++ pascal_s name in
  ac <- field_ann_lit C S frs fuel' tvalues f t sub_class ;;
  let '(a0, ctx, is_lit) := ac in
  (* the typename Literal ignores @skip/@include only where it discriminates a union (add_typename);
     elsewhere a conditional __typename is Optional with default None like any other field *)
  let lit_req := is_lit && add_typename in
  Ok (mk_pfield name key (cond_ann lit_req (fn_cond f) a0) lit_req (fn_cond f), ctx).

(* _parse_field_selection_set_types: one class per related type of the field's annotation *)
Definition parse_sub_step (rec : ptd_fun) (S : schema) (ctx : fctx) (f : fnode) (sub : list sel)
           (acc2 : ptd_res) (rc : related) : ptd_res :=
  st2 <- acc2 ;;
  let '(cls, pub2, sk2) := st2 in
  q <- rec pub2 (r_class rc) (r_type rc) sub (x_abstract ctx) (fn_mixins f)
           (Some (typename_values S (x_related ctx) (r_type rc))) ;;
  let '(qc, qp, qs) := q in
  Ok (cls ++ qc, qp, sk2 || qs).

Definition parse_subs (rec : ptd_fun) (S : schema) (ctx : fctx) (f : fnode) (pub : mem_state) : ptd_res :=
  match fn_sub f with
  | None => Ok ([], pub, false)
  | Some sub => fold_left (parse_sub_step rec S ctx f sub) (x_related ctx) (Ok ([], pub, false))
  end.

Definition fields_state := (list pfield * list pclass * mem_state * bool)%type.

Definition parse_field_step (rec : ptd_fun) (C : cfg) (S : schema) (frs : list fragdef) (fuel' : nat)
           (class_name type_name : string) (tvalues : option (list string)) (add_typename : bool)
           (acc : res fields_state) (f : fnode) : res fields_state :=
  st <- acc ;;
  let '(pfs, extra, pub, sk) := st in
  pc <- field_pf C S frs fuel' class_name type_name tvalues add_typename f ;;
  let '(pf, ctx) := pc in
  ex <- parse_subs rec S ctx f pub ;;
  let '(exc, exp, exs) := ex in
  Ok (pfs ++ [pf], extra ++ exc, exp, sk || exs).

Definition parse_body (rec : ptd_fun) (C : cfg) (S : schema) (frs : list fragdef) (fuel' : nat)
           (pub : mem_state) (class_name type_name : string) (sels : list sel)
           (add_typename : bool) (extra_bases : list string) (tvalues : option (list string)) : ptd_res :=
  if mem class_name pub then Ok ([], pub, true)
  else
    let pub := pub ++ [class_name] in
    rf <- resolve fuel' S frs false sels type_name ;;
    let '(fields0, mixins) := rf in
    let fields := add_typename_field add_typename fields0 in
    kept <- remove_inherited fuel' S frs mixins ;;
    let bases := class_bases mixins kept extra_bases in
    r <- fold_left (parse_field_step rec C S frs fuel' class_name type_name tvalues add_typename) fields
                   (Ok ([], [], pub, false)) ;;
    let '(pfs, extra, pub, sk) := r in
    Ok ({| c_name := class_name; c_bases := bases; c_fields := pfs |} :: extra, pub, sk).

Fixpoint parse_type_def (fuel : nat) (C : cfg) (S : schema) (frs : list fragdef)
         (pub : mem_state) (class_name type_name : string) (sels : list sel)
         (add_typename : bool) (extra_bases : list string) (tvalues : option (list string))
  : ptd_res :=
  match fuel with
  | O => Err "fuel"
  | S fuel' =>
      parse_body (parse_type_def fuel' C S frs) C S frs fuel' pub class_name type_name sels
                 add_typename extra_bases tvalues
  end.

Inductive defn :=
| DOp (kind : string) (name : string) (mixins : list string) (sels : list sel)
| DFrag (f : fragdef).

Definition root_type_name (S : schema) (kind : string) : res string :=
  let o := if String.eqb kind "query" then s_query S
           else if String.eqb kind "mutation" then s_mutation S
           else if String.eqb kind "subscription" then s_subscription S else None in
  match o with Some n => Ok n | None => Err "NotSupported: operation type" end.

(* the root class generation of an operation, with the final _public_names and the ghost flag *)
Definition op_parse (fuel : nat) (C : cfg) (S : schema) (frs : list fragdef)
           (kind name : string) (mixins : list string) (sels : list sel) : ptd_res :=
  tn <- root_type_name S kind ;;
  parse_type_def fuel C S frs [] (pascal_s name) tn sels false mixins None.

(* ResultTypesGenerator.__init__: the classes of one operation / fragment module entry *)
Definition result_classes (fuel : nat) (C : cfg) (S : schema) (frs : list fragdef) (d : defn)
  : res (list pclass) :=
  match d with
  | DOp kind name mixins sels =>
      r <- op_parse fuel C S frs kind name mixins sels ;;
      Ok (fst (fst r))
  | DFrag f =>
      if unpack_fragment S f None then Ok []
      else r <- parse_type_def fuel C S frs [] (pascal_s (fr_name f)) (fr_on f) (fr_sel f) false
                  (fr_mixins f) None ;;
           Ok (fst (fst r))
  end.

(* ---- sexp interface ---- *)
Definition d_scalar_cfg (e : sexp) : option scalar_cfg :=
  match e with
  | L [A g; A t; p] => option_map (fun p => {| sc_gql := g; sc_type_name := t; sc_has_parse := p |}) (dB p)
  | _ => None
  end.

Definition d_cfg (e : sexp) : option cfg :=
  match e with
  | L [sn; scs] =>
      match dB sn, dList d_scalar_cfg scs with
      | Some sn, Some scs => Some {| cf_snake := sn; cf_scalars := scs |}
      | _, _ => None
      end
  | _ => None
  end.

Definition d_defn (e : sexp) : option defn :=
  match e with
  | L [A "op"; A kind; A name; ms; sl] =>
      match dList dStr ms, dList d_sel sl with
      | Some ms, Some sl => Some (DOp kind name ms sl)
      | _, _ => None
      end
  | L [A "frag"; f] => option_map DFrag (d_frag f)
  | _ => None
  end.

(* classes of one operation module together with the fragments module *)
Definition all_classes (fuel : nat) (C : cfg) (S : schema) (frs : list fragdef) (d : defn)
  : res (list pclass) :=
  own <- result_classes fuel C S frs d ;;
  fold_left (fun acc f => l <- acc ;; c <- result_classes fuel C S frs (DFrag f) ;; Ok (l ++ c))
            frs (Ok own).

Definition schema_enums (S : schema) : list (string * list string) :=
  flat_map (fun p => match snd p with DEnum vs => [(fst p, vs)] | _ => [] end) (s_types S).

Definition run_results (e : sexp) : sexp :=
  match e with
  | L [A "conf"; fuel; s; fs; d; L payloads] =>
      match dNat fuel, d_schema s, dList d_frag fs, d_defn d, dAll json_of_sexp payloads with
      | Some fuel, Some s, Some fs, Some (DOp kind _ _ sels), Some js =>
          match root_type_name s kind with
          | Ok root => L [A "ok"; L (map (fun j => sB (conf_op fuel s fs root sels j)) js)]
          | Err m => L [A "err"; A m]
          end
      | _, _, _, _, _ => sErr "results: cannot decode arguments"
      end
  | L [A "validate"; fuel; c; s; fs; d; L payloads] =>
      match dNat fuel, d_cfg c, d_schema s, dList d_frag fs, d_defn d, dAll json_of_sexp payloads with
      | Some fuel, Some c, Some s, Some fs, Some d, Some js =>
          match all_classes fuel c s fs d with
          | Ok (root :: rest) =>
              L [A "ok"; L (map (fun j => sB (accepts fuel (root :: rest) (schema_enums s)
                                                     (AClass (c_name root)) j)) js);
                 L (map (fun j => sB (covers fuel (root :: rest) (AClass (c_name root)) j)) js)]
          | Ok [] => L [A "err"; A "no classes"]
          | Err m => L [A "err"; A m]
          end
      | _, _, _, _, _, _ => sErr "results: cannot decode arguments"
      end
  | L [A "classes"; fuel; c; s; fs; d] =>
      match dNat fuel, d_cfg c, d_schema s, dList d_frag fs, d_defn d with
      | Some fuel, Some c, Some s, Some fs, Some d =>
          match result_classes fuel c s fs d with
          | Ok cls => L [A "ok"; L (map pclass_sx cls)]
          | Err m => L [A "err"; A m]
          end
      | _, _, _, _, _ => sErr "results: cannot decode arguments"
      end
  | _ => sErr "results: bad command"
  end.
