(* Model of request construction in the four bundled base clients (identical code in
   base_client.py, async_base_client.py, base_client_open_telemetry.py,
   async_base_client_open_telemetry.py; the telemetry wrappers delegate to the same senders):
     execute / _execute, _process_variables, _convert_dict_to_json_serializable, _convert_value,
     _get_files_from_variables (separate_files), _execute_json, _execute_multipart
   plus the two library behaviours the code relies on:
     pydantic BaseModel.model_dump(by_alias=True, exclude_unset=True)      (dumpv)
     json.dumps(..., default=pydantic_core.to_jsonable_python)              (to_json)
   Executable definitions only. *)
From Coq Require Import List String Ascii ZArith Bool Arith.
From AC Require Import Base.Sexp Base.Json Base.Strs.
Import ListNotations.
Local Open Scope string_scope.
Local Open Scope list_scope.

(* ---- the variables tree (Python values reachable from the `variables` dict) ---- *)
Record mfield := mk_mfield { mf_name : string; mf_alias : option string; mf_set : bool }.
Definition wire (f : mfield) : string :=
  match mf_alias f with Some a => a | None => mf_name f end.

Inductive vt :=
| VLeaf (j : json)                (* None/bool/int/float/str, or an Enum/date(time) leaf given by
                                     the JSON value to_jsonable_python turns it into *)
| VUpload (id : nat)              (* an Upload object; id = object identity *)
| VUnset                          (* the UNSET sentinel *)
| VList (l : list vt)
| VDict (kv : list (string * vt))
| VModel (fs : list (mfield * vt)). (* pydantic model: fields in definition order; an unset field
                                       carries its default value *)

Definition is_unset (t : vt) : bool := match t with VUnset => true | _ => false end.

(* ---- pydantic: model_dump(by_alias=True, exclude_unset=True), python mode.  Unknown objects
   (Upload, UNSET) pass through; nested models, lists and dicts are serialised recursively ---- *)
Fixpoint dumpv (t : vt) : vt :=
  match t with
  | VList l => VList (map dumpv l)
  | VDict kv => VDict (map (fun p : string * vt => let (k, v) := p in (k, dumpv v)) kv)
  | VModel fs =>
      VDict ((fix go (fs : list (mfield * vt)) : list (string * vt) :=
                match fs with
                | [] => []
                | (f, v) :: r => if mf_set f then (wire f, dumpv v) :: go r else go r
                end) fs)
  | x => x
  end.

(* ---- type-directed dumping.  A generated input model declares its fields' types
   (file: Upload, files: Optional[List[Upload]], parent: Optional["DocumentInput"], ...) and pydantic's
   model_dump serialises each field by the serializer of its DECLARED type; only `Any` fields are
   serialised by the runtime type (dumpv).  The serializer of the bundled Upload class is a parameter:
   the class defines no pydantic schema, so arbitrary_types_allowed gives an is-instance schema whose
   python-mode serializer passes the object through (ser = VUpload).  A value that does not fit the
   declared type falls back to the runtime type (pydantic's "unexpected value" path). ---- *)
Inductive fann :=
| FAny | FLeaf | FUpload
| FOpt (a : fann) | FList (a : fann)
| FModel (fs : list (string * fann)).     (* fields in definition order; recursion unrolled *)

Fixpoint dump_fields_any (fs : list (mfield * vt)) : list (string * vt) :=
  match fs with
  | [] => []
  | (f, v) :: r => if mf_set f then (wire f, dumpv v) :: dump_fields_any r else dump_fields_any r
  end.

Fixpoint dumpt (ser : nat -> vt) (a : fann) (v : vt) {struct a} : vt :=
  match a with
  | FAny | FLeaf => dumpv v
  | FUpload => match v with VUpload id => ser id | _ => dumpv v end
  | FOpt a' => match v with VLeaf JNull => v | _ => dumpt ser a' v end
  | FList a' => match v with VList l => VList (map (dumpt ser a') l) | _ => dumpv v end
  | FModel sch =>
      match v with
      | VModel fs =>
          VDict ((fix go (sch : list (string * fann)) (fs : list (mfield * vt)) : list (string * vt) :=
                    match sch with
                    | [] => dump_fields_any fs
                    | (_, a') :: rs =>
                        match fs with
                        | [] => []
                        | (f, x) :: rf => if mf_set f then (wire f, dumpt ser a' x) :: go rs rf else go rs rf
                        end
                    end) sch fs)
      | _ => dumpv v
      end
  end.

Definition ser_upload (id : nat) : vt := VUpload id.     (* the bundled Upload class, as it is *)

(* _convert_value (after /repo dd85cf5): models dumped, lists and dicts mapped *)
Fixpoint convert_value (t : vt) : vt :=
  match t with
  | VModel _ => dumpv t
  | VList l => VList (map convert_value l)
  | VDict kv => VDict (map (fun p : string * vt => let (k, v) := p in (k, convert_value v)) kv)
  | x => x
  end.

(* _convert_dict_to_json_serializable: top-level UNSET entries dropped *)
Definition convert_dict (kv : list (string * vt)) : list (string * vt) :=
  map (fun p => (fst p, convert_value (snd p))) (filter (fun p => negb (is_unset (snd p))) kv).

(* ---- _get_files_from_variables ---- *)
Inductive seg := SKey (k : string) | SIdx (i : nat).
Definition path := list seg.     (* "variables" is the root; f"{path}.{key}" appends a segment *)

(* files_list, files_map *)
Definition sstate := (list nat * list (nat * list path))%type.

Fixpoint index_of (id : nat) (l : list nat) : option nat :=
  match l with
  | [] => None
  | x :: r => if Nat.eqb x id then Some 0 else option_map S (index_of id r)
  end.

(* files_map[str(i)].append(p) *)
Fixpoint map_append (i : nat) (p : path) (m : list (nat * list path)) : list (nat * list path) :=
  match m with
  | [] => []
  | (k, ps) :: r => if Nat.eqb k i then (k, ps ++ [p]) :: r else (k, ps) :: map_append i p r
  end.

(* the isinstance(obj, Upload) branch *)
Definition record (st : sstate) (pu : path * nat) : sstate :=
  let (files, fmap) := st in
  let (p, id) := pu in
  match index_of id files with
  | Some i => (files, map_append i p fmap)
  | None => (files ++ [id], fmap ++ [(List.length files, [p])])
  end.

Section SepChildren.
  Variable f : path -> vt -> sstate -> vt * sstate.
  Fixpoint sep_list (p : path) (i : nat) (l : list vt) (st : sstate) : list vt * sstate :=
    match l with
    | [] => ([], st)
    | x :: r =>
        let (x', st1) := f (p ++ [SIdx i]) x st in
        let (r', st2) := sep_list p (S i) r st1 in
        (x' :: r', st2)
    end.
  Fixpoint sep_dict (p : path) (kv : list (string * vt)) (st : sstate) : list (string * vt) * sstate :=
    match kv with
    | [] => ([], st)
    | (k, x) :: r =>
        let (x', st1) := f (p ++ [SKey k]) x st in
        let (r', st2) := sep_dict p r st1 in
        ((k, x') :: r', st2)
    end.
End SepChildren.

(* separate_files(path, obj) with files_list/files_map threaded; a model or UNSET that is still
   in the tree is "any other object": returned as is *)
Fixpoint separate (p : path) (t : vt) (st : sstate) : vt * sstate :=
  match t with
  | VList l => let (l', st') := sep_list separate p 0 l st in (VList l', st')
  | VDict kv => let (kv', st') := sep_dict separate p kv st in (VDict kv', st')
  | VUpload id => (VLeaf JNull, record st (p, id))
  | x => (x, st)
  end.

Definition get_files (vars : list (string * vt)) : list (string * vt) * sstate :=
  sep_dict separate [] vars ([], []).

(* _process_variables *)
Definition process_variables (vars : option (list (string * vt))) : list (string * vt) * sstate :=
  match vars with
  | None | Some [] => ([], ([], []))                         (* if not variables *)
  | Some kv => get_files (convert_dict kv)
  end.

(* ---- json.dumps(default=to_jsonable_python): None = PydanticSerializationError escapes.
   A model still in the tree is serialised by pydantic in json mode with by_alias=True and
   exclude_unset=False (every field); Upload and UNSET are unknown types ---- *)
Fixpoint to_json (t : vt) : option json :=
  match t with
  | VLeaf j => Some j
  | VUpload _ => None
  | VUnset => None
  | VList l =>
      option_map JArr
        ((fix go (l : list vt) : option (list json) :=
            match l with
            | [] => Some []
            | x :: r => match to_json x, go r with Some a, Some b => Some (a :: b) | _, _ => None end
            end) l)
  | VDict kv =>
      option_map JObj
        ((fix go (kv : list (string * vt)) : option (list (string * json)) :=
            match kv with
            | [] => Some []
            | (k, x) :: r => match to_json x, go r with Some a, Some b => Some ((k, a) :: b) | _, _ => None end
            end) kv)
  | VModel fs =>
      option_map JObj
        ((fix go (fs : list (mfield * vt)) : option (list (string * json)) :=
            match fs with
            | [] => Some []
            | (f, x) :: r => match to_json x, go r with Some a, Some b => Some ((wire f, a) :: b) | _, _ => None end
            end) fs)
  end.

(* ---- path rendering: "variables.a.0.b" ---- *)
Definition nat_to_string (n : nat) : string := z_to_string (Z.of_nat n).
Definition seg_to_string (s : seg) : string :=
  match s with SKey k => k | SIdx i => nat_to_string i end.
Definition render_path (p : path) : string :=
  fold_left (fun acc s => (acc ++ "." ++ seg_to_string s)%string) p "variables".

(* ---- headers: Python dict update (exact, case-sensitive keys) ---- *)
Definition headers := list (string * string).
Fixpoint dict_set (k v : string) (d : headers) : headers :=
  match d with
  | [] => [(k, v)]
  | (k', v') :: r => if String.eqb k' k then (k', v) :: r else (k', v') :: dict_set k v r
  end.
Definition dict_update (d u : headers) : headers :=
  fold_left (fun acc p => dict_set (fst p) (snd p) acc) u d.

Definition default_headers : headers := [("Content-Type", "application/json")].

(* what is on the wire: header names are case-insensitive, httpx lower-cases them *)
Definition lower (s : string) : string := l2s (map to_lower (s2l s)).

(* _execute_json (after /repo 7378d1f):
     caller_headers = kwargs.get("headers", {})
     headers = {}
     if not any(name.lower() == "content-type" for name in caller_headers):
         headers["Content-Type"] = "application/json"
     headers.update(caller_headers) *)
Definition has_ct (u : headers) : bool :=
  existsb (fun p => String.eqb (lower (fst p)) "content-type") u.
Definition merge_headers (u : headers) : headers :=
  dict_update (if has_ct u then [] else default_headers) u.
Definition wire_values (name : string) (h : headers) : list string :=
  map snd (filter (fun p => String.eqb (lower (fst p)) (lower name)) h).

(* ---- calls, client state, requests ---- *)
Record call := mk_call {
  c_query : string; c_opname : option string; c_vars : option (list (string * vt));
  c_headers : option headers;       (* kwargs.get("headers") *)
  c_timeout : option Z }.           (* any other kwarg, passed through *)

Record cstate := mk_cstate { s_url : string; s_headers : option headers }.

Inductive request :=
| RJson (url : string) (h : headers) (timeout : option Z) (body : json)
| RMultipart (url : string) (h : option headers) (timeout : option Z)
             (operations : json) (fmap : json) (files : list (string * nat))
| RError.      (* serialisation raised; nothing is sent *)

Definition opname_json (o : option string) : json :=
  match o with Some s => JStr s | None => JNull end.

Definition body_json (q : string) (o : option string) (vars : json) : json :=
  JObj [("query", JStr q); ("operationName", opname_json o); ("variables", vars)].

Definition fmap_json (m : list (nat * list path)) : json :=
  JObj (map (fun e => (nat_to_string (fst e), JArr (map (fun p => JStr (render_path p)) (snd e)))) m).

Definition files_parts (files : list nat) : list (string * nat) :=
  (fix go (i : nat) (l : list nat) : list (string * nat) :=
     match l with [] => [] | id :: r => (nat_to_string i, id) :: go (S i) r end) 0 files.

Definition is_nil {X} (l : list X) : bool := match l with [] => true | _ => false end.

(* execute / _execute: multipart iff files and files_map are both non-empty *)
Definition build_request (url : string) (c : call) : request :=
  let '(vars, (files, fmap)) := process_variables (c_vars c) in
  match to_json (VDict vars) with
  | None => RError
  | Some vj =>
      if negb (is_nil files) && negb (is_nil fmap) then
        RMultipart url (c_headers c) (c_timeout c)
                   (body_json (c_query c) (c_opname c) vj) (fmap_json fmap) (files_parts files)
      else
        RJson url (merge_headers (match c_headers c with Some h => h | None => [] end))
              (c_timeout c) (body_json (c_query c) (c_opname c) vj)
  end.

Definition execute (s : cstate) (c : call) : cstate * request := (s, build_request (s_url s) c).

(* ---- specification side: pure views used by the theorems ---- *)
(* every Upload below p, in traversal order, with its path *)
Section UpChildren.
  Variable f : path -> vt -> list (path * nat).
  Fixpoint ups_list (p : path) (i : nat) (l : list vt) : list (path * nat) :=
    match l with [] => [] | x :: r => f (p ++ [SIdx i]) x ++ ups_list p (S i) r end.
  Fixpoint ups_dict (p : path) (kv : list (string * vt)) : list (path * nat) :=
    match kv with [] => [] | (k, x) :: r => f (p ++ [SKey k]) x ++ ups_dict p r end.
End UpChildren.
Fixpoint uploads_at (p : path) (t : vt) : list (path * nat) :=
  match t with
  | VList l => ups_list uploads_at p 0 l
  | VDict kv => ups_dict uploads_at p kv
  | VUpload id => [(p, id)]
  | _ => []
  end.

(* the tree with every reachable Upload replaced by None *)
Fixpoint null_uploads (t : vt) : vt :=
  match t with
  | VList l => VList (map null_uploads l)
  | VDict kv => VDict (map (fun q : string * vt => let (k, v) := q in (k, null_uploads v)) kv)
  | VUpload _ => VLeaf JNull
  | x => x
  end.

(* navigation by path *)
Fixpoint vlookup (k : string) (kv : list (string * vt)) : option vt :=
  match kv with
  | [] => None
  | (k', v) :: r => if String.eqb k' k then Some v else vlookup k r
  end.
Fixpoint get_at (p : path) (t : vt) : option vt :=
  match p with
  | [] => Some t
  | s :: r =>
      match s, t with
      | SIdx i, VList l => match nth_error l i with Some x => get_at r x | None => None end
      | SKey k, VDict kv => match vlookup k kv with Some x => get_at r x | None => None end
      | _, _ => None
      end
  end.

(* server side of the multipart spec: put file [id] at every path the map lists for it.
   Read as a traversal of the nulled tree consulting the map. *)
Definition seg_eqb (a b : seg) : bool :=
  match a, b with
  | SKey x, SKey y => String.eqb x y
  | SIdx x, SIdx y => Nat.eqb x y
  | _, _ => false
  end.
Fixpoint path_eqb (a b : path) : bool :=
  match a, b with
  | [], [] => true
  | x :: a', y :: b' => seg_eqb x y && path_eqb a' b'
  | _, _ => false
  end.
Definition map_find (st : sstate) (p : path) : option nat :=
  let (files, fmap) := st in
  match find (fun e => existsb (path_eqb p) (snd e)) fmap with
  | Some e => nth_error files (fst e)
  | None => None
  end.

Section FillChildren.
  Variable f : path -> vt -> vt.
  Fixpoint fill_list (p : path) (i : nat) (l : list vt) : list vt :=
    match l with [] => [] | x :: r => f (p ++ [SIdx i]) x :: fill_list p (S i) r end.
  Fixpoint fill_dict (p : path) (kv : list (string * vt)) : list (string * vt) :=
    match kv with [] => [] | (k, x) :: r => (k, f (p ++ [SKey k]) x) :: fill_dict p r end.
End FillChildren.
Fixpoint fill (st : sstate) (p : path) (t : vt) : vt :=
  match t with
  | VList l => VList (fill_list (fill st) p 0 l)
  | VDict kv => VDict (fill_dict (fill st) p kv)
  | VLeaf JNull => match map_find st p with Some id => VUpload id | None => t end
  | x => x
  end.

(* dict keys unique at every level (Python dicts; models have distinct wire names) *)
Fixpoint keys_unique (l : list string) : bool :=
  match l with
  | [] => true
  | k :: r => negb (existsb (String.eqb k) r) && keys_unique r
  end.
Fixpoint wf_keys (t : vt) : bool :=
  match t with
  | VList l => forallb wf_keys l
  | VDict kv => keys_unique (map fst kv) && forallb (fun q => wf_keys (snd q)) kv
  | _ => true
  end.

(* ---- finding classes / restrictions as booleans ---- *)
(* caller headers pairwise distinct up to case (otherwise the caller contradicts himself) *)
Definition names_distinct_ci (h : headers) : bool := keys_unique (map (fun p => lower (fst p)) h).

(* UNSET anywhere in a tree (model fields included) *)
Fixpoint has_unset (t : vt) : bool :=
  match t with
  | VUnset => true
  | VList l => existsb has_unset l
  | VDict kv => existsb (fun q => has_unset (snd q)) kv
  | VModel fs => existsb (fun q => has_unset (snd q)) fs
  | _ => false
  end.
(* the restriction of the main stream: UNSET only as a top-level value *)
Definition vars_ok (vars : list (string * vt)) : bool :=
  forallb (fun q => is_unset (snd q) || negb (has_unset (snd q))) vars.

(* every Upload object anywhere in a value: through lists, dicts and the set fields of models *)
Fixpoint deep_ids (t : vt) : list nat :=
  match t with
  | VUpload id => [id]
  | VList l => flat_map deep_ids l
  | VDict kv => flat_map (fun q : string * vt => deep_ids (snd q)) kv
  | VModel fs =>
      (fix go (fs : list (mfield * vt)) : list nat :=
         match fs with
         | [] => []
         | (f, v) :: r => if mf_set f then deep_ids v ++ go r else go r
         end) fs
  | _ => []
  end.

(* a model somewhere below a plain dict (regression class of the fixed finding C11-model-under-dict) *)
Fixpoint has_model (t : vt) : bool :=
  match t with
  | VModel _ => true
  | VList l => existsb has_model l
  | VDict kv => existsb (fun q => has_model (snd q)) kv
  | _ => false
  end.
Fixpoint model_under_dict (t : vt) : bool :=
  match t with
  | VList l => existsb model_under_dict l
  | VDict _ => has_model t
  | _ => false
  end.

(* ---- the senders, and the OpenTelemetry path.  _execute_with_telemetry is a second copy of the
   dispatch of _execute (it processes the variables itself and chooses the sender itself) wrapped in
   spans; modelled separately, function by function, and PROVED to send the same request ---- *)
(* _execute_multipart / _execute_json: each serialises the body itself *)
Definition send_multipart (url : string) (c : call) (vars : list (string * vt))
                          (files : list nat) (fmap : list (nat * list path)) : request :=
  match to_json (VDict vars) with
  | None => RError
  | Some vj => RMultipart url (c_headers c) (c_timeout c) (body_json (c_query c) (c_opname c) vj)
                          (fmap_json fmap) (files_parts files)
  end.
Definition send_json (url : string) (c : call) (vars : list (string * vt)) : request :=
  match to_json (VDict vars) with
  | None => RError
  | Some vj => RJson url (merge_headers (match c_headers c with Some h => h | None => [] end))
                     (c_timeout c) (body_json (c_query c) (c_opname c) vj)
  end.

Record span := mk_span { sp_name : string; sp_attrs : list (string * json) }.
Definition component_attr : string * json := ("component", JStr "GraphQL Client").
(* span.set_attribute("operationName", operation_name or "") *)
Definition opname_attr (o : option string) : json :=
  JStr (match o with Some s => s | None => "" end).

(* the child span: component first; the variables (and map) are serialised BEFORE the other
   attributes are set, so a serialisation error leaves a span with the component only *)
Definition execute_with_telemetry (root_name url : string) (c : call) : list span * request :=
  let '(vars, (files, fmap)) := process_variables (c_vars c) in
  let root := mk_span root_name [component_attr] in
  if negb (is_nil files) && negb (is_nil fmap) then
    match to_json (VDict vars) with
    | None => ([root; mk_span "multipart request" [component_attr]], RError)
    | Some vj =>
        ([root; mk_span "multipart request"
                  [component_attr; ("query", JStr (c_query c)); ("operationName", opname_attr (c_opname c));
                   ("variables", vj); ("map", fmap_json fmap)]],
         send_multipart url c vars files fmap)
    end
  else
    match to_json (VDict vars) with
    | None => ([root; mk_span "json request" [component_attr]], RError)
    | Some vj =>
        ([root; mk_span "json request"
                  [component_attr; ("query", JStr (c_query c)); ("operationName", opname_attr (c_opname c));
                   ("variables", vj)]],
         send_json url c vars)
    end.

(* an UNSET that json.dumps will meet: below the top level, through lists, dicts and SET model fields *)
Fixpoint reach_unset (t : vt) : bool :=
  match t with
  | VUnset => true
  | VList l => existsb reach_unset l
  | VDict kv => existsb (fun q => reach_unset (snd q)) kv
  | VModel fs => existsb (fun q => mf_set (fst q) && reach_unset (snd q)) fs
  | _ => false
  end.
Definition vars_reach_unset (vars : list (string * vt)) : bool :=
  existsb (fun q => negb (is_unset (snd q)) && reach_unset (snd q)) vars.

(* ---- the stream behind an Upload: content, current position, seekability.
   All four clients hand the stream object itself to httpx (files={i: (filename, content, type)});
   httpx's multipart FileField.render_data rewinds a seekable stream (seek(0)) and reads to EOF, a
   non-seekable one is read from where it stands.  "The file" of the multipart spec is therefore the
   whole content of a seekable stream, whatever its position when execute is called. ---- *)
Record upload := mk_upload {
  up_filename : string; up_ctype : string; up_content : string; up_pos : nat; up_seekable : bool }.
Fixpoint drop_s (n : nat) (s : string) : string :=
  match n, s with
  | 0, _ => s
  | S m, String _ r => drop_s m r
  | S _, EmptyString => EmptyString
  end.
Definition sent_bytes (u : upload) : string :=
  if up_seekable u then up_content u else drop_s (up_pos u) (up_content u).
Definition set_pos (n : nat) (u : upload) : upload :=
  mk_upload (up_filename u) (up_ctype u) (up_content u) n (up_seekable u).
Definition after_send (u : upload) : upload := set_pos (String.length (up_content u)) u.
(* the same Upload sent n times in a row (a history on any clients): the bytes of each send *)
Fixpoint send_n (n : nat) (u : upload) : list string :=
  match n with 0 => [] | S m => sent_bytes u :: send_n m (after_send u) end.

(* ---- sexp interface ---- *)
Definition dField (e : sexp) : option mfield :=
  match e with
  | L [A n; a; s] =>
      match dOpt dStr a, dB s with
      | Some al, Some b => Some (mk_mfield n al b)
      | _, _ => None
      end
  | _ => None
  end.

Fixpoint vt_of_sexp (e : sexp) : option vt :=
  match e with
  | A "unset" => Some VUnset
  | L [A "leaf"; j] => option_map VLeaf (json_of_sexp j)
  | L [A "up"; n] => option_map VUpload (dNat n)
  | L (A "list" :: l) =>
      option_map VList
        ((fix go (l : list sexp) : option (list vt) :=
            match l with
            | [] => Some []
            | x :: r => match vt_of_sexp x, go r with Some a, Some b => Some (a :: b) | _, _ => None end
            end) l)
  | L (A "dict" :: l) =>
      option_map VDict
        ((fix go (l : list sexp) : option (list (string * vt)) :=
            match l with
            | [] => Some []
            | L [A k; x] :: r => match vt_of_sexp x, go r with Some a, Some b => Some ((k, a) :: b) | _, _ => None end
            | _ => None
            end) l)
  | L (A "model" :: l) =>
      option_map VModel
        ((fix go (l : list sexp) : option (list (mfield * vt)) :=
            match l with
            | [] => Some []
            | L [f; x] :: r =>
                match dField f, vt_of_sexp x, go r with
                | Some f', Some a, Some b => Some ((f', a) :: b)
                | _, _, _ => None
                end
            | _ => None
            end) l)
  | _ => None
  end.

Fixpoint fann_of_sexp (e : sexp) : option fann :=
  match e with
  | A "any" => Some FAny
  | A "leaf" => Some FLeaf
  | A "upload" => Some FUpload
  | L [A "opt"; a] => option_map FOpt (fann_of_sexp a)
  | L [A "list"; a] => option_map FList (fann_of_sexp a)
  | L (A "model" :: l) =>
      option_map FModel
        ((fix go (l : list sexp) : option (list (string * fann)) :=
            match l with
            | [] => Some []
            | L [A n; a] :: r => match fann_of_sexp a, go r with Some x, Some y => Some ((n, x) :: y) | _, _ => None end
            | _ => None
            end) l)
  | _ => None
  end.

Fixpoint vt_to_sexp (t : vt) : sexp :=
  match t with
  | VLeaf j => L [A "leaf"; json_to_sexp j]
  | VUpload id => L [A "up"; sN id]
  | VUnset => A "unset"
  | VList l => L (A "list" :: map vt_to_sexp l)
  | VDict kv => L (A "dict" :: map (fun p : string * vt => let (k, v) := p in L [A k; vt_to_sexp v]) kv)
  | VModel fs => L (A "model" :: map (fun p : mfield * vt => let (f, v) := p in L [A (mf_name f); vt_to_sexp v]) fs)
  end.

Definition dVars (e : sexp) : option (option (list (string * vt))) :=
  match e with
  | A "none" => Some None
  | L [A "some"; d] => match vt_of_sexp d with Some (VDict kv) => Some (Some kv) | _ => None end
  | _ => None
  end.

Definition dPair (e : sexp) : option (string * string) :=
  match e with L [A k; A v] => Some (k, v) | _ => None end.
Definition dHeaders (e : sexp) : option (option headers) := dOpt (dList dPair) e.

Definition sHeaders (h : headers) : sexp := L (map (fun p => L [A (fst p); A (snd p)]) h).

Definition span_to_sexp (sp : span) : sexp :=
  L [A (sp_name sp); L (map (fun p => L [A (fst p); json_to_sexp (snd p)]) (sp_attrs sp))].

Definition request_to_sexp (r : request) : sexp :=
  match r with
  | RJson url h t b => L [A "json"; A url; sHeaders h; sOpt sZ t; json_to_sexp b]
  | RMultipart url h t ops m fs =>
      L [A "multipart"; A url; sOpt sHeaders h; sOpt sZ t; json_to_sexp ops; json_to_sexp m;
         L (map (fun p => L [A (fst p); sN (snd p)]) fs)]
  | RError => L [A "error"]
  end.

(* in-model evaluation of the round-trip statement on the converted tree *)
Fixpoint vt_eqb (a b : vt) : bool :=
  match a, b with
  | VLeaf x, VLeaf y => match json_to_sexp x, json_to_sexp y with
                        | sx, sy => (fix eq (u v : sexp) : bool :=
                                       match u, v with
                                       | A s, A s' => String.eqb s s'
                                       | L l, L l' =>
                                           (fix eql (l l' : list sexp) : bool :=
                                              match l, l' with
                                              | [], [] => true
                                              | x :: r, y :: r' => eq x y && eql r r'
                                              | _, _ => false
                                              end) l l'
                                       | _, _ => false
                                       end) sx sy
                        end
  | VUpload i, VUpload j => Nat.eqb i j
  | VUnset, VUnset => true
  | VList l, VList l' =>
      (fix eql (l l' : list vt) : bool :=
         match l, l' with
         | [], [] => true
         | x :: r, y :: r' => vt_eqb x y && eql r r'
         | _, _ => false
         end) l l'
  | VDict kv, VDict kv' =>
      (fix eql (l l' : list (string * vt)) : bool :=
         match l, l' with
         | [], [] => true
         | (k, x) :: r, (k', y) :: r' => String.eqb k k' && vt_eqb x y && eql r r'
         | _, _ => false
         end) kv kv'
  | VModel fs, VModel fs' =>
      (fix eql (l l' : list (mfield * vt)) : bool :=
         match l, l' with
         | [], [] => true
         | (f, x) :: r, (f', y) :: r' => String.eqb (mf_name f) (mf_name f') && vt_eqb x y && eql r r'
         | _, _ => false
         end) fs fs'
  | _, _ => false
  end.

Definition roundtrip_holds (vars : option (list (string * vt))) : bool :=
  match vars with
  | None | Some [] => true
  | Some kv =>
      let ct := VDict (convert_dict kv) in
      let (nulled, st) := separate [] ct ([], []) in
      vt_eqb (fill st [] nulled) ct
  end.

Definition run_client (e : sexp) : sexp :=
  match e with
  | L [A "execute"; A url; A q; o; v; h; t] =>
      match dOpt dStr o, dVars v, dHeaders h, dOpt dZ t with
      | Some o', Some v', Some h', Some t' =>
          let c := mk_call q o' v' h' t' in
          L [request_to_sexp (snd (execute (mk_cstate url None) c));
             sB (match v' with Some kv => vars_ok kv && wf_keys (VDict kv) | None => true end);
             sB (match v' with Some kv => existsb (fun q => model_under_dict (snd q)) kv | None => false end);
             sB (match h' with Some hh => has_ct hh | None => false end);
             sB (roundtrip_holds v');
             L (map (fun n => A n) (wire_values "content-type"
                  (match snd (execute (mk_cstate url None) c) with RJson _ hh _ _ => hh | _ => [] end)));
             L [request_to_sexp (snd (execute_with_telemetry "GraphQL Operation" url c));
                L (map span_to_sexp (fst (execute_with_telemetry "GraphQL Operation" url c)))];
             sB (match v' with Some kv => vars_reach_unset kv | None => false end)]
      | _, _, _, _ => sErr "execute: bad arguments"
      end
  | L [A "dumpt"; a; v] =>
      match fann_of_sexp a, vt_of_sexp v with
      | Some a', Some v' => L [vt_to_sexp (dumpt ser_upload a' v'); vt_to_sexp (dumpv v')]
      | _, _ => sErr "dumpt: bad arguments"
      end
  | L [A "constants"] =>
      (* the literal data of the model, compared on every run with what the harness reads off /repo's source *)
      let c := mk_call "q" None None None None in
      let cm := mk_call "q" None (Some [("f", VUpload 0)]) None None in
      let keys j := match j with JObj kv => L (map (fun p => A (fst p)) kv) | _ => sErr "not an object" end in
      let span_desc sp := L [A (sp_name sp); L (map (fun p => A (fst p)) (sp_attrs sp))] in
      L [L [A "default_headers"; sHeaders default_headers];
         L [A "content_type_probe"; A "content-type"; sB (has_ct [("content-type", "")]); sB (has_ct [("Content-Type", "")])];
         L [A "body_keys"; keys (body_json "" None JNull)];
         L [A "path_root_and_separator"; A (render_path []); A (render_path [SKey "k"; SIdx 0])];
         L [A "multipart_fields";
            match build_request "u" cm with
            | RMultipart _ _ _ ops fm fs => L [keys ops; keys fm; L (map (fun p => A (fst p)) fs)]
            | _ => sErr "no multipart" end];
         L [A "spans_json"; L (map span_desc (fst (execute_with_telemetry "GraphQL Operation" "u" c)))];
         L [A "spans_multipart"; L (map span_desc (fst (execute_with_telemetry "GraphQL Operation" "u" cm)))];
         L [A "component"; json_to_sexp (snd component_attr)];
         L [A "opname_none_attr"; json_to_sexp (opname_attr None)]]
  | L [A "sent_bytes"; A content; pos; seekable] =>
      match dNat pos, dB seekable with
      | Some n, Some b =>
          let u := mk_upload "" "" content n b in
          L [A (sent_bytes u); sN (up_pos (after_send u)); L (map (fun x => A x) (send_n 3 u))]
      | _, _ => sErr "sent_bytes: bad arguments"
      end
  | _ => sErr "client: bad command"
  end.
