(* Character-level model of Python's repr() and ast.literal_eval() on the values that the
   graphqlschema strategy embeds through ast.Constant: None / bool / int / float / str / list / dict
   (dict keys are strings: GraphQL object-literal field names).
   Executable definitions only (proofs: Proofs/PyReprP.v).

   Strings are byte lists (UTF-8 on the wire).  Bytes >= 128 pass through both functions unchanged,
   which is what CPython does for PRINTABLE non-ASCII characters only; the fidelity domain of this
   model is therefore ASCII + printable non-ASCII (K2 checks exactly that domain against CPython).
   Floats are opaque lexemes (CPython's repr(float) text); inf, -inf, nan are the non-finite
   ones: repr prints them as bare names, which literal_eval (and Python evaluation) rejects. *)
From Coq Require Import List String Ascii ZArith Bool Arith.
From AC Require Import Base.Strs Base.Sexp.
Import ListNotations.

Inductive pyval :=
| PNone
| PBool (b : bool)
| PInt (z : Z)
| PFloat (lexeme : chars)
| PStr (s : chars)
| PList (l : list pyval)
| PDict (kv : list (chars * pyval)).

(* ---------- characters ---------- *)
Definition cLF : ascii := "010"%char.
Definition cCR : ascii := "013"%char.
Definition cTAB : ascii := "009"%char.
Definition cBS : ascii := "\"%char.
Definition cSQ : ascii := "'"%char.
Definition cDQ : ascii := """"%char.
Definition cSP : ascii := " "%char.

Definition hexdigit (n : nat) : ascii :=
  if n <? 10 then ascii_of_nat (48 + n) else ascii_of_nat (87 + n).
Definition hex2 (c : ascii) : chars := [hexdigit (code c / 16); hexdigit (code c mod 16)].
Definition unhex1 (c : ascii) : option nat :=
  if is_digit c then Some (code c - 48)
  else if (97 <=? code c) && (code c <=? 102) then Some (code c - 87)
  else if (65 <=? code c) && (code c <=? 70) then Some (code c - 55)
  else None.
Definition unhex2 (a b : ascii) : option ascii :=
  match unhex1 a, unhex1 b with
  | Some x, Some y => Some (ascii_of_nat (16 * x + y))
  | _, _ => None
  end.

(* ---------- repr ---------- *)
Definition has_char (c : ascii) (s : chars) : bool := existsb (Ascii.eqb c) s.

(* CPython unicode_repr: double quotes only when the string has a single quote and no double quote *)
Definition choose_quote (s : chars) : ascii :=
  if has_char cSQ s && negb (has_char cDQ s) then cDQ else cSQ.

Definition esc_char (q c : ascii) : chars :=
  if Ascii.eqb c cBS then [cBS; cBS]
  else if Ascii.eqb c q then [cBS; q]
  else if Ascii.eqb c cLF then [cBS; "n"%char]
  else if Ascii.eqb c cCR then [cBS; "r"%char]
  else if Ascii.eqb c cTAB then [cBS; "t"%char]
  else if (code c <? 32) || (code c =? 127) then cBS :: "x"%char :: hex2 c
  else [c].

Definition repr_str (s : chars) : chars :=
  let q := choose_quote s in q :: flat_map (esc_char q) s ++ [q].

Definition repr_int (z : Z) : chars := s2l (z_to_string z).

Fixpoint py_repr (v : pyval) : chars :=
  match v with
  | PNone => s2l "None"
  | PBool true => s2l "True"
  | PBool false => s2l "False"
  | PInt z => repr_int z
  | PFloat lx => lx
  | PStr s => repr_str s
  | PList l =>
      "["%char ::
      (fix items (l : list pyval) : chars :=
         match l with
         | [] => []
         | x :: r => match r with
                     | [] => py_repr x
                     | _ :: _ => py_repr x ++ ","%char :: cSP :: items r
                     end
         end) l ++ ["]"%char]
  | PDict kv =>
      "{"%char ::
      (fix entries (kv : list (chars * pyval)) : chars :=
         match kv with
         | [] => []
         | (k, x) :: r =>
             match r with
             | [] => repr_str k ++ ":"%char :: cSP :: py_repr x
             | _ :: _ => repr_str k ++ ":"%char :: cSP :: py_repr x ++ ","%char :: cSP :: entries r
             end
         end) kv ++ ["}"%char]
  end.

(* ---------- literal_eval ---------- *)
Fixpoint skip_ws (cs : chars) : chars :=
  match cs with
  | c :: r => if Ascii.eqb c cSP then skip_ws r else cs
  | [] => []
  end.

Fixpoint strip_prefix (p cs : chars) : option chars :=
  match p, cs with
  | [], _ => Some cs
  | a :: p', c :: r => if Ascii.eqb a c then strip_prefix p' r else None
  | _ :: _, [] => None
  end.

(* body of a quoted string after the opening quote q; returns (content, rest after closing q) *)
Fixpoint pstr (q : ascii) (cs : chars) : option (chars * chars) :=
  match cs with
  | [] => None
  | c :: r =>
      if Ascii.eqb c q then Some ([], r)
      else if Ascii.eqb c cLF then None
      else if Ascii.eqb c cBS then
        match r with
        | [] => None
        | e :: r1 =>
            let single (x : ascii) :=
              match pstr q r1 with Some (s, r') => Some (x :: s, r') | None => None end in
            if Ascii.eqb e cBS then single cBS
            else if Ascii.eqb e cSQ then single cSQ
            else if Ascii.eqb e cDQ then single cDQ
            else if Ascii.eqb e "n"%char then single cLF
            else if Ascii.eqb e "r"%char then single cCR
            else if Ascii.eqb e "t"%char then single cTAB
            else if Ascii.eqb e "x"%char then
              match r1 with
              | h1 :: h2 :: r2 =>
                  (* \xNN with NN >= 128 denotes U+00NN, two bytes in UTF-8: outside the fragment *)
                  match unhex2 h1 h2, pstr q r2 with
                  | Some x, Some (s, r') => if code x <? 128 then Some (x :: s, r') else None
                  | _, _ => None
                  end
              | _ => None
              end
            else None   (* other escapes: outside the modelled fragment *)
        end
      else match pstr q r with Some (s, r') => Some (c :: s, r') | None => None end
  end.

(* number tokens *)
Definition intch (c : ascii) : bool := is_digit c || Ascii.eqb c "-"%char.
Definition numch (c : ascii) : bool :=
  intch c || Ascii.eqb c "."%char || Ascii.eqb c "e"%char || Ascii.eqb c "+"%char.

Fixpoint span (p : ascii -> bool) (cs : chars) : chars * chars :=
  match cs with
  | c :: r => if p c then let '(a, b) := span p r in (c :: a, b) else ([], cs)
  | [] => ([], [])
  end.

Definition strip1 (p : ascii -> bool) (cs : chars) : chars :=
  match cs with c :: r => if p c then r else cs | [] => [] end.

(* CPython float literal shape, as produced by repr(float) for finite values:
   -? digits+ ( . digits* )? ( e [+-]? digits+ )?   with a fraction or an exponent present *)
Definition float_gram (l : chars) : bool :=
  let l1 := strip1 (Ascii.eqb "-"%char) l in
  let '(ip, r1) := span is_digit l1 in
  match ip with
  | [] => false
  | _ :: _ =>
      let '(has_frac, r2) :=
        match r1 with
        | c :: r => if Ascii.eqb c "."%char then (true, snd (span is_digit r)) else (false, r1)
        | [] => (false, r1)
        end in
      match r2 with
      | [] => has_frac
      | c :: r =>
          if Ascii.eqb c "e"%char then
            let r' := strip1 (fun x => Ascii.eqb x "+"%char || Ascii.eqb x "-"%char) r in
            match r' with [] => false | _ :: _ => forallb is_digit r' end
          else false
      end
  end.

Definition float_tok (l : chars) : bool :=
  forallb numch l && negb (forallb intch l) && float_gram l.

Definition pnum (cs : chars) : option (pyval * chars) :=
  let '(tok, rest) := span numch cs in
  match tok with
  | [] => None
  | _ :: _ =>
      if forallb intch tok then
        match z_of_string (l2s tok) with Some z => Some (PInt z, rest) | None => None end
      else if float_gram tok then Some (PFloat tok, rest) else None
  end.

(* dict display semantics: a repeated key overwrites the value, keeps the first position *)
Fixpoint dict_set {B : Type} (kv : list (chars * B)) (k : chars) (v : B) : list (chars * B) :=
  match kv with
  | [] => [(k, v)]
  | (k', v') :: r => if chars_eqb k k' then (k', v) :: r else (k', v') :: dict_set r k v
  end.
Definition dict_norm {B : Type} (kv : list (chars * B)) : list (chars * B) :=
  fold_left (fun acc p => dict_set acc (fst p) (snd p)) kv [].

Definition is_quote (c : ascii) : bool := Ascii.eqb c cSQ || Ascii.eqb c cDQ.

Fixpoint pval (n : nat) (cs0 : chars) : option (pyval * chars) :=
  match n with
  | 0 => None
  | S n =>
      let cs := skip_ws cs0 in
      match cs with
      | [] => None
      | c :: r =>
          if Ascii.eqb c "["%char then
            match r with
            | c2 :: r2 =>
                if Ascii.eqb c2 "]"%char then Some (PList [], r2)
                else match pitems n r with Some (l, r') => Some (PList l, r') | None => None end
            | [] => None
            end
          else if Ascii.eqb c "{"%char then
            match r with
            | c2 :: r2 =>
                if Ascii.eqb c2 "}"%char then Some (PDict [], r2)
                else match pentries n r with
                     | Some (kv, r') => Some (PDict (dict_norm kv), r')
                     | None => None end
            | [] => None
            end
          else if is_quote c then
            match pstr c r with Some (s, r') => Some (PStr s, r') | None => None end
          else match strip_prefix (s2l "None") cs with
          | Some r' => Some (PNone, r')
          | None =>
          match strip_prefix (s2l "True") cs with
          | Some r' => Some (PBool true, r')
          | None =>
          match strip_prefix (s2l "False") cs with
          | Some r' => Some (PBool false, r')
          | None => pnum cs
          end end end
      end
  end
with pitems (n : nat) (cs : chars) : option (list pyval * chars) :=
  match n with
  | 0 => None
  | S n =>
      match pval n cs with
      | Some (v, c :: r) =>
          if Ascii.eqb c "]"%char then Some ([v], r)
          else if Ascii.eqb c ","%char then
            match pitems n r with Some (l, r') => Some (v :: l, r') | None => None end
          else None
      | _ => None
      end
  end
with pentries (n : nat) (cs0 : chars) : option (list (chars * pyval) * chars) :=
  match n with
  | 0 => None
  | S n =>
      match skip_ws cs0 with
      | q :: r0 =>
          if is_quote q then
            match pstr q r0 with
            | Some (k, c1 :: r1) =>
                if Ascii.eqb c1 ":"%char then
                  match pval n r1 with
                  | Some (v, c :: r) =>
                      if Ascii.eqb c "}"%char then Some ([(k, v)], r)
                      else if Ascii.eqb c ","%char then
                        match pentries n r with
                        | Some (l, r') => Some ((k, v) :: l, r')
                        | None => None end
                      else None
                  | _ => None
                  end
                else None
            | _ => None
            end
          else None
      | [] => None
      end
  end.

Definition py_literal_eval (s : chars) : option pyval :=
  match pval (2 * List.length s + 2) s with
  | Some (v, []) => Some v
  | _ => None
  end.

(* ---------- well-formed (= genuinely Python) values ---------- *)
Fixpoint nodup_keys (ks : list chars) : bool :=
  match ks with
  | [] => true
  | k :: r => negb (mem_chars k r) && nodup_keys r
  end.

Fixpoint wf_val (v : pyval) : bool :=
  match v with
  | PFloat lx => float_tok lx
  | PList l => forallb wf_val l
  | PDict kv => nodup_keys (map fst kv) && forallb (fun p => wf_val (snd p)) kv
  | _ => true
  end.

(* a float lexeme CPython can print: finite shape or one of the three non-finite names *)
Definition nonfinite_lex (l : chars) : bool :=
  chars_eqb l (s2l "inf") || chars_eqb l (s2l "-inf") || chars_eqb l (s2l "nan").
Fixpoint py_val (v : pyval) : bool :=
  match v with
  | PFloat lx => float_tok lx || nonfinite_lex lx
  | PList l => forallb py_val l
  | PDict kv => nodup_keys (map fst kv) && forallb (fun p => py_val (snd p)) kv
  | _ => true
  end.

(* wf_val is py_val minus the non-finite lexemes *)
Fixpoint has_nonfinite (v : pyval) : bool :=
  match v with
  | PFloat lx => nonfinite_lex lx && negb (float_tok lx)
  | PList l => existsb has_nonfinite l
  | PDict kv => existsb (fun p => has_nonfinite (snd p)) kv
  | _ => false
  end.
Definition finite_val (v : pyval) : bool := py_val v && negb (has_nonfinite v).

(* ---------- values the generator can meet as DEFAULT values ----------
   graphql-core builds them from SDL / introspection literals: finite floats, and +-inf from an
   overflowing literal such as 1e999 (nan cannot be written).  A float lexeme stands for the float
   whose repr it is, so the spellings 1e309 / -1e309 (what ast.unparse writes for +-inf, not the repr
   of any float) are not values of the domain; evaluation reads them back as inf / -inf. *)
Definition inf_lex (l : chars) : bool := chars_eqb l (s2l "inf") || chars_eqb l (s2l "-inf").
Definition inf_spelling (l : chars) : bool := chars_eqb l (s2l "1e309") || chars_eqb l (s2l "-1e309").
Definition canon_float (l : chars) : chars :=
  if chars_eqb l (s2l "1e309") then s2l "inf" else if chars_eqb l (s2l "-1e309") then s2l "-inf" else l.
Fixpoint dv_val (v : pyval) : bool :=
  match v with
  | PFloat lx => (float_tok lx && negb (inf_spelling lx)) || inf_lex lx
  | PList l => forallb dv_val l
  | PDict kv => nodup_keys (map fst kv) && forallb (fun p => dv_val (snd p)) kv
  | _ => true
  end.
Definition is_atom (v : pyval) : bool := match v with PList _ | PDict _ => false | _ => true end.

Definition ascii_str (s : chars) : bool := forallb (fun c => code c <? 128) s.

(* ---------- sexp codec:  n | (b t) | (i 12) | (f "1.5") | (s "x") | (l v...) | (d (k v)...) ---------- *)
Local Open Scope string_scope.
Fixpoint pyval_to_sexp (v : pyval) : sexp :=
  match v with
  | PNone => A "n"
  | PBool b => L [A "b"; sB b]
  | PInt z => L [A "i"; sZ z]
  | PFloat s => L [A "f"; A (l2s s)]
  | PStr s => L [A "s"; A (l2s s)]
  | PList l => L (A "l" :: map pyval_to_sexp l)
  | PDict kv => L (A "d" :: map (fun p => L [A (l2s (fst p)); pyval_to_sexp (snd p)]) kv)
  end.

Fixpoint pyval_of_sexp (e : sexp) : option pyval :=
  match e with
  | A "n" => Some PNone
  | L [A "b"; b] => option_map PBool (dB b)
  | L [A "i"; z] => option_map PInt (dZ z)
  | L [A "f"; A s] => Some (PFloat (s2l s))
  | L [A "s"; A s] => Some (PStr (s2l s))
  | L (A "l" :: l) =>
      option_map PList
      ((fix go (l : list sexp) : option (list pyval) :=
         match l with
         | [] => Some []
         | x :: r => match pyval_of_sexp x, go r with
                     | Some v, Some vs => Some (v :: vs) | _, _ => None end
         end) l)
  | L (A "d" :: l) =>
      option_map PDict
      ((fix go (l : list sexp) : option (list (chars * pyval)) :=
         match l with
         | [] => Some []
         | L [A k; x] :: r => match pyval_of_sexp x, go r with
                              | Some v, Some vs => Some ((s2l k, v) :: vs) | _, _ => None end
         | _ => None
         end) l)
  | _ => None
  end.
