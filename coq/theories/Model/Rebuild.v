(* Model of where the generated result and fragments modules call model_rebuild():
   codegen.model_has_forward_refs (a quoted Name anywhere in the class body: class annotations are emitted
   quoted), ResultTypesGenerator.generate (rebuild every class with forward references, after all classes),
   FragmentsGenerator._get_model_rebuild_calls (since b2fbf53: top-level fragment classes and every class with
   forward references, in class order).  Executable definitions only. *)
From Coq Require Import List String Bool.
From AC Require Import Gql.Schema Py.Ann.
Import ListNotations.

Fixpoint ann_quoted (a : ann) : bool :=
  match a with
  | AClass _ => true
  | AOpt x | AList x => ann_quoted x
  | AUnion l => existsb ann_quoted l
  | _ => false
  end.

Definition has_forward_refs (c : pclass) : bool := existsb (fun f => ann_quoted (p_ann f)) (c_fields c).

Definition op_rebuild_calls (cls : list pclass) : list string := map c_name (filter has_forward_refs cls).

Definition frag_rebuild_calls (top : list string) (cls : list pclass) : list string :=
  map c_name (filter (fun c => mem (c_name c) top || has_forward_refs c) cls).

(* import-time resolution of quoted annotations (pydantic, modelled): classes are created in list order; a class
   is complete at creation iff every class its annotations name is earlier in the list; a model_rebuild() call
   placed after all classes completes it iff every name it mentions exists by then *)
Fixpoint ann_class_names (a : ann) : list string :=
  match a with
  | AClass n => [n]
  | AOpt x | AList x => ann_class_names x
  | AUnion l => flat_map ann_class_names l
  | _ => []
  end.
Definition class_refs (c : pclass) : list string := flat_map (fun f => ann_class_names (p_ann f)) (c_fields c).

Definition complete_after_load (all_names rebuilds earlier : list string) (c : pclass) : bool :=
  forallb (fun n => mem n earlier) (class_refs c)
  || (mem (c_name c) rebuilds && forallb (fun n => mem n all_names) (class_refs c)).
