(* Model of the custom operation builder (C14).
   Generator side  : custom_fields.py / custom_operation.py / custom_arguments.py  -> class table
   Runtime side    : dependencies/base_operation.py GraphQLField (alias, fields, on, to_ast,
                     _format_variable_name, _collect_all_variables, get_formatted_variables)
                     and the generated client's _build_selection_set, _combine_variables,
                     _build_variable_definitions, execute_custom_operation.
   Executable definitions only; proofs are in Proofs/BuilderP.v.

   Object identity.  Class-level attribute fields (`PersonFields.id = PersonGraphQLField("id")`) are
   templates: since fix 5c467bf GraphQLField.__get__ hands out a fresh copy on every access through
   the class, so no builder operation can reach (or mutate) a class-level object.  Every object of a
   builder *expression tree* therefore has exactly one owner and is stored inline in it ([N ...]);
   an in-place mutation of it is the owner getting the updated copy.  The model has no heap and no
   state between operations: history freedom is by construction here and is established for the real
   code by the tie (operations after histories vs. in a fresh process; the former alias()/on()
   witnesses are replayed each run).  One Python object used twice (through a variable) is not a
   tree and is outside the expression language. *)
From Coq Require Import List String Ascii ZArith Bool Arith DecimalString Decimal.
From AC Require Import Base.Strs Base.Sexp Base.Json Model.Names.
Import ListNotations.
Local Open Scope string_scope.

(* ------------------------------------------------------------------------------------------ *)
(* Schema, as far as the builder generator looks at it                                        *)
(* ------------------------------------------------------------------------------------------ *)
Inductive gtype := TNamed (n : string) | TList (t : gtype) | TNonNull (t : gtype).
Inductive tkind := KObj | KIface | KUnion | KLeaf.      (* scalar / enum / input object = KLeaf *)
Record argdef := { a_name : string; a_type : gtype }.
Record fdef := { fd_name : string; fd_args : list argdef; fd_type : gtype }.
Record tdef := { t_name : string; t_kind : tkind; t_fields : list fdef; t_ifaces : list string }.
Definition schema := list tdef.
(* configuration: convert_to_snake_case; names of custom scalars configured with `serialize` *)
Record gconf := { c_snake : bool; c_ser : list string }.

Fixpoint final_name (t : gtype) : string :=
  match t with TNamed n => n | TList t' => final_name t' | TNonNull t' => final_name t' end.
(* str(graphql_type): the exact GraphQL type *)
Fixpoint exact_string (t : gtype) : string :=
  match t with
  | TNamed n => n
  | TList t' => "[" ++ exact_string t' ++ "]"
  | TNonNull t' => exact_string t' ++ "!"
  end.
Definition is_nonnull (t : gtype) : bool := match t with TNonNull _ => true | _ => false end.
(* custom_arguments._accumulate_return_arguments: constant_value = str(arg_value.type)
   (since fix 54e286b; before: the final type's name with at most one "!") *)
Definition type_string (t : gtype) : string := exact_string t.

Definition streq := String.eqb.
Definition lookup_type (s : schema) (n : string) : option tdef :=
  find (fun t => streq (t_name t) n) s.
Definition kind_of (s : schema) (n : string) : tkind :=
  match lookup_type s n with Some t => t_kind t | None => KLeaf end.

(* process_name(name, convert_to_snake_case=...) with the other flags at their defaults *)
Definition pyname (c : gconf) (n : string) : string :=
  l2s (process_name {| f_snake := c_snake c; f_trim := false; f_reserved := false |} (s2l n)).

(* ---- generic Python-dict helpers on association lists (insertion ordered, unique keys) ---- *)
Fixpoint dlookup {X} (k : string) (d : list (string * X)) : option X :=
  match d with
  | [] => None
  | (k', v) :: r => if streq k k' then Some v else dlookup k r
  end.
(* d[k] = v : replace in place, else append *)
Fixpoint dset {X} (d : list (string * X)) (k : string) (v : X) : list (string * X) :=
  match d with
  | [] => [(k, v)]
  | (k', v') :: r => if streq k k' then (k', v) :: r else (k', v') :: dset r k v
  end.
Definition dupdate {X} (d : list (string * X)) (l : list (string * X)) : list (string * X) :=
  fold_left (fun acc kv => dset acc (fst kv) (snd kv)) l d.

(* _get_combined_fields: dict(definition.fields) then .update(interface.fields) per interface *)
Definition combined_fields (s : schema) (td : tdef) : list fdef :=
  let own := map (fun f => (fd_name f, f)) (t_fields td) in
  let all := fold_left (fun acc iname =>
                 match lookup_type s iname with
                 | Some it => dupdate acc (map (fun f => (fd_name f, f)) (t_fields it))
                 | None => acc end) (t_ifaces td) own in
  map snd all.

(* ------------------------------------------------------------------------------------------ *)
(* The class table: what the generated modules contain                                        *)
(* ------------------------------------------------------------------------------------------ *)
Record argmeta := { am_gql : string;       (* key of the `arguments` dict = GraphQL argument name *)
                    am_py : string;        (* Python parameter name *)
                    am_type : string;      (* "type" string the generator computes *)
                    am_exact : string;     (* the argument's exact GraphQL type (spec side) *)
                    am_required : bool;    (* positional (non-null) vs keyword-only = None *)
                    am_ser : bool;         (* value passed through the scalar's serialize(...) *)
                    am_ty : gtype }.       (* the argument's GraphQL type (drives the serialize expression) *)
Inductive okind := OFields | OIface | OUnion | OLeaf.
Record fieldmeta := { fm_py : string;      (* attribute / method name on the class *)
                      fm_gql : string;     (* GraphQL field name (spec side) *)
                      fm_emit : string;    (* string passed to the GraphQLField constructor *)
                      fm_method : bool;    (* classmethod (fresh object) vs class attribute (shared) *)
                      fm_cls : string;     (* class of the created object *)
                      fm_okind : okind;
                      fm_args : list argmeta }.
Record classmeta := { cm_name : string; cm_fields : list fieldmeta }.

Definition arg_meta (c : gconf) (a : argdef) : argmeta :=
  {| am_gql := a_name a; am_py := pyname c (a_name a);
     am_type := type_string (a_type a); am_exact := exact_string (a_type a);
     am_required := is_nonnull (a_type a);
     am_ser := existsb (streq (final_name (a_type a))) (c_ser c);
     am_ty := a_type a |}.

Definition is_nil {X} (l : list X) : bool := match l with [] => true | _ => false end.

(* custom_fields._generate_class_def_body / _get_field_name / _generate_class_field /
   generate_product_type_method *)
Definition field_meta (c : gconf) (s : schema) (owner : string) (f : fdef) : fieldmeta :=
  let fin := final_name (fd_type f) in
  let '(cls, ok, method_required) :=
    match kind_of s fin with
    | KObj => (fin ++ "Fields", OFields, true)
    | KIface => (fin ++ "Interface", OIface, true)
    | KUnion => (fin ++ "Union", OUnion, false)
    | KLeaf => (owner ++ "GraphQLField", OLeaf, false)
    end in
  let meth := negb (is_nil (fd_args f)) || method_required in
  let py := pyname c (fd_name f) in
  {| fm_py := py; fm_gql := fd_name f;
     (* both branches pass org_name to the constructor (generate_product_type_method since fix
        8a66e7d: `org_name or name`) *)
     fm_emit := fd_name f;
     fm_method := meth; fm_cls := cls; fm_okind := ok;
     fm_args := map (arg_meta c) (fd_args f) |}.

Definition class_suffix (k : tkind) : string :=
  match k with KObj => "Fields" | KIface => "Interface" | KUnion => "Union" | KLeaf => "GraphQLField" end.

Definition type_class (c : gconf) (s : schema) (td : tdef) : classmeta :=
  {| cm_name := t_name td ++ class_suffix (t_kind td);
     cm_fields := map (field_meta c s (t_name td)) (combined_fields s td) |}.

(* custom_operation._generate_method: str_to_snake_case(operation_name) always; field_name=GraphQL name *)
Definition root_field_meta (c : gconf) (s : schema) (f : fdef) : fieldmeta :=
  let fin := final_name (fd_type f) in
  let k := kind_of s fin in
  {| fm_py := l2s (snake (s2l (fd_name f))); fm_gql := fd_name f; fm_emit := fd_name f;
     fm_method := true;
     fm_cls := match k with KLeaf => "GraphQLField" | _ => fin ++ class_suffix k end;
     fm_okind := match k with KObj => OFields | KIface => OIface | KUnion => OUnion | KLeaf => OLeaf end;
     fm_args := map (arg_meta c) (fd_args f) |}.

Definition root_class (c : gconf) (s : schema) (clsname : string) (td : tdef) : classmeta :=
  {| cm_name := clsname; cm_fields := map (root_field_meta c s) (t_fields td) |}.

Definition is_composite (k : tkind) : bool := match k with KObj | KIface => true | _ => false end.

(* class table: Query / Mutation classes first, then one class per object / interface type *)
Definition gen_classes (c : gconf) (s : schema) (q m : option string) : list classmeta :=
  let root (n : option string) (cls : string) :=
    match n with
    | Some tn => match lookup_type s tn with Some td => [root_class c s cls td] | None => [] end
    | None => [] end in
  (root q "Query" ++ root m "Mutation" ++
   map (type_class c s) (filter (fun td => is_composite (t_kind td)) s))%list.

Definition find_class (ct : list classmeta) (n : string) : option classmeta :=
  find (fun cm => streq (cm_name cm) n) ct.
Definition find_field (cm : classmeta) (py : string) : option fieldmeta :=
  find (fun fm => streq (fm_py fm) py) (cm_fields cm).
Definition find_fm (ct : list classmeta) (cls py : string) : option fieldmeta :=
  match find_class ct cls with Some cm => find_field cm py | None => None end.

(* ------------------------------------------------------------------------------------------ *)
(* Runtime objects                                                                             *)
(* ------------------------------------------------------------------------------------------ *)
Record var := { v_name : string; v_type : string; v_value : json }.      (* _variables[name] *)
Record fvar := { fv_key : string; fv_var : var }.                         (* formatted_variables *)
Record ndata := { d_name : string; d_kind : okind; d_vars : list var; d_fmt : list fvar;
                  d_alias : option string }.
Inductive node := N (d : ndata) (subs : list node) (frags : list (string * list node)).

Definition can_fields (k : okind) : bool := match k with OFields | OIface => true | _ => false end.
Definition can_on (k : okind) : bool := match k with OIface | OUnion => true | _ => false end.

Definition fresh_data (name : string) (k : okind) (vars : list var) : ndata :=
  {| d_name := name; d_kind := k; d_vars := vars; d_fmt := []; d_alias := None |}.

(* ---- builder expressions ---- *)
Inductive bexpr :=
| Attr (cls f : string)
| Call (cls f : string) (args : list (string * json))   (* by GraphQL argument name; JNull = None *)
| Fields (e : bexpr) (es : list bexpr)
| Alias (e : bexpr) (a : string)
| On (e : bexpr) (t : string) (es : list bexpr).

(* the serialize function the harness configures:  ser(x) = {"ser": x}  (None -> {"ser": null}) *)
Definition ser (j : json) : json := JObj [("ser", j)].
Definition is_null (j : json) : bool := match j with JNull => true | _ => false end.

(* map with failure *)
Fixpoint omap {X Y} (f : X -> option Y) (l : list X) : option (list Y) :=
  match l with
  | [] => Some []
  | x :: r => match f x, omap f r with Some a, Some b => Some (a :: b) | _, _ => None end
  end.

(* custom_arguments._generate_serialize_expr (fix 3032a3a): serialize() once per occurrence, lists item
   by item; `x if x is not None else None` around nullable positions and around the argument itself
   (depth 0); a NON-NULL item position is NOT guarded.  None = the Python expression raises
   (`for _item in <not a list>`: TypeError; the harness' JSON values make every non-array non-iterable
   except strings, which it never passes at a list type). *)
Definition guardo (v : json) (e : option json) : option json := if is_null v then Some JNull else e.
Definition lst (f : json -> option json) (v : json) : option json :=
  match v with JArr l => option_map JArr (omap f l) | _ => None end.
Fixpoint ser_t (top : bool) (t : gtype) (v : json) {struct t} : option json :=
  match t with
  | TNamed _ => guardo v (Some (ser v))
  | TList it => guardo v (lst (ser_t false it) v)
  | TNonNull t' =>
      let e := match t' with
               | TList it => lst (ser_t false it) v
               | _ => Some (ser v) end in
      if top then guardo v e else e
  end.
(* specification: null stays null wherever it stands; every other occurrence of the scalar is
   serialised exactly once, lists element-wise *)
Definition guardn (v e : json) : json := if is_null v then JNull else e.
Definition lsts (f : json -> json) (v : json) : json :=
  match v with JArr l => JArr (map f l) | _ => v end.
Fixpoint ser_spec (t : gtype) (v : json) {struct t} : json :=
  guardn v (match t with
            | TNamed _ => ser v
            | TList it => lsts (ser_spec it) v
            | TNonNull t' => match t' with
                             | TList it => lsts (ser_spec it) v
                             | _ => ser v end
            end).
(* the caller's value is a value of the argument's type, as far as the serialize expression looks:
   arrays (or None where nullable) at list positions, no None at a non-null ITEM position *)
Fixpoint nn_ok (top : bool) (t : gtype) (v : json) {struct t} : bool :=
  let items (it : gtype) := match v with JArr l => forallb (nn_ok false it) l | _ => false end in
  match t with
  | TNamed _ => true
  | TList it => is_null v || items it
  | TNonNull t' =>
      match t' with
      | TList it => (top && is_null v) || items it
      | _ => top || negb (is_null v)
      end
  end.
(* shape of the generated expression, for K1: G = None guard, L = list comprehension, S = serialize call *)
Fixpoint ser_shape (top : bool) (t : gtype) {struct t} : string :=
  match t with
  | TNamed _ => "G(S)"
  | TList it => "G(L(" ++ ser_shape false it ++ "))"
  | TNonNull t' =>
      let e := match t' with TList it => "L(" ++ ser_shape false it ++ ")" | _ => "S" end in
      if top then "G(" ++ e ++ ")" else e
  end.

(* body of a generated classmethod: the `arguments` dict, then `cleared_arguments` *)
Fixpoint call_vars (ams : list argmeta) (args : list (string * json)) : option (list var) :=
  match ams with
  | [] => Some []
  | am :: r =>
      match (match dlookup (am_gql am) args with
             | Some v => Some v
             | None => if am_required am then None (* TypeError: missing positional *) else Some JNull
             end), call_vars r args with
      | Some v, Some vs =>
          match (if am_ser am then ser_t true (am_ty am) v else Some v) with
          | Some v' =>
              Some (if is_null v' then vs
                    else {| v_name := am_gql am; v_type := am_type am; v_value := v' |} :: vs)
          | None => None       (* the serialize expression raised *)
          end
      | _, _ => None
      end
  end.
(* unknown keyword -> TypeError *)
Definition args_known (ams : list argmeta) (args : list (string * json)) : bool :=
  forallb (fun kv => existsb (fun am => streq (am_gql am) (fst kv)) ams) args.

Definition set_alias (d : ndata) (a : string) : ndata :=
  {| d_name := d_name d; d_kind := d_kind d; d_vars := d_vars d; d_fmt := d_fmt d; d_alias := Some a |}.
Definition set_fmt (d : ndata) (f : list fvar) : ndata :=
  {| d_name := d_name d; d_kind := d_kind d; d_vars := d_vars d; d_fmt := f; d_alias := d_alias d |}.

Section Eval.
Variable ct : list classmeta.

Fixpoint eval (e : bexpr) {struct e} : option node :=
  let evals := fix go (l : list bexpr) {struct l} : option (list node) :=
    match l with
    | [] => Some []
    | x :: r => match eval x, go r with Some n, Some ns => Some (n :: ns) | _, _ => None end
    end in
  match e with
  | Attr cls f =>
      (* class attribute access: __get__ returns a copy of the template created at import time *)
      match find_fm ct cls f with
      | Some fm => if fm_method fm then None      (* a bound method, not a field object *)
                   else Some (N (fresh_data (fm_emit fm) (fm_okind fm) []) [] [])
      | None => None end
  | Call cls f args =>
      match find_fm ct cls f with
      | Some fm =>
          if fm_method fm && args_known (fm_args fm) args then
            match call_vars (fm_args fm) args with
            | Some vs => Some (N (fresh_data (fm_emit fm) (fm_okind fm) vs) [] [])
            | None => None end
          else None
      | None => None end
  | Fields e0 es =>
      match eval e0, evals es with
      | Some (N d subs frs), Some ns =>
          if can_fields (d_kind d) then Some (N d (subs ++ ns)%list frs) else None
      | _, _ => None end
  | Alias e0 a =>
      match eval e0 with
      | Some (N d subs frs) => Some (N (set_alias d a) subs frs)
      | None => None end
  | On e0 t es =>
      match eval e0, evals es with
      | Some (N d subs frs), Some ns =>
          if can_on (d_kind d) then Some (N d subs (dset frs t ns)) else None
      | _, _ => None end
  end.

Fixpoint evals (l : list bexpr) : option (list node) :=
  match l with
  | [] => Some []
  | x :: r => match eval x, evals r with Some n, Some ns => Some (n :: ns) | _, _ => None end
  end.
End Eval.

(* ------------------------------------------------------------------------------------------ *)
(* to_ast                                                                                      *)
(* ------------------------------------------------------------------------------------------ *)
Definition nat_str (n : nat) : string := NilZero.string_of_uint (Nat.to_uint n).
Definition mem (x : string) (l : list string) : bool := existsb (streq x) l.

(* while unique_name in used_names: unique_name = f"{base_name}_{counter}"; counter += 1
   The loop runs at most |used|+1 times (proved); [fuel] is that bound. *)
Fixpoint name_loop (fuel : nat) (base : string) (counter : nat) (used : list string) : option string :=
  match fuel with
  | 0 => None
  | S f =>
      let cand := base ++ "_" ++ nat_str counter in
      if mem cand used then name_loop f base (S counter) used else Some cand
  end.
Definition format_variable_name (idx : nat) (var_name : string) (used : list string) : option string :=
  let base := var_name ++ "_" ++ nat_str idx in
  if mem base used then name_loop (S (List.length used)) base 1 used else Some base.

(* _collect_all_variables: returns the new used set and formatted_variables *)
Fixpoint collect (idx : nat) (used : list string) (vs : list var) : option (list string * list fvar) :=
  match vs with
  | [] => Some (used, [])
  | v :: r =>
      match format_variable_name idx (v_name v) used with
      | Some u => match collect idx (u :: used) r with
                  | Some (used', fs) => Some (used', {| fv_key := u; fv_var := v |} :: fs)
                  | None => None end
      | None => None end
  end.

(* selections; [A] = what stands at an argument: the variable name (model) or (type, value) (spec) *)
Inductive sel (A : Type) :=
| SF (alias : option string) (name : string) (args : list (string * A)) (sels : option (list (sel A)))
| SI (tcond : string) (sels : list (sel A)).
Arguments SF {A}. Arguments SI {A}.

(* f"{alias}: {name}" if self._alias else name  — truthiness: "" is no alias *)
Definition eff_alias (a : option string) : option string :=
  match a with Some "" => None | x => x end.

(* thread a state through a list *)
Fixpoint thread {St X Y} (g : St -> X -> option (St * Y)) (s : St) (l : list X) : option (St * list Y) :=
  match l with
  | [] => Some (s, [])
  | x :: r => match g s x with
              | Some (s1, y) => match thread g s1 r with
                                | Some (s2, ys) => Some (s2, y :: ys)
                                | None => None end
              | None => None end
  end.

(* to_ast(idx, used_names): returns the new used set, the FieldNode and the object with its
   formatted_variables rewritten.  [fuel] bounds the depth of the object tree. *)
Fixpoint to_ast (fuel : nat) (idx : nat) (used : list string) (n : node)
  : option (list string * (sel string * node)) :=
  match fuel with
  | 0 => None
  | S f =>
      match n with
      | N d subs frs =>
          match collect idx used (d_vars d) with
          | Some (used1, fmt) =>
              match thread (to_ast f idx) used1 subs with
              | Some (s2, rs) =>
                  match thread (fun s' (fr : string * list node) =>
                                  match thread (to_ast f idx) s' (snd fr) with
                                  | Some (s'', cs) => Some (s'', (fst fr, cs))
                                  | None => None end) s2 frs with
                  | Some (s3, frs') =>
                      let sels := (map (fun r => fst r) rs ++
                                  map (fun fr => SI (fst fr) (map (fun r => fst r) (snd fr))) frs')%list in
                      Some (s3,
                            (SF (eff_alias (d_alias d)) (d_name d)
                                (map (fun fv => (v_name (fv_var fv), fv_key fv)) fmt)
                                (if is_nil subs && is_nil frs then None else Some sels),
                             N (set_fmt d fmt) (map (fun r => snd r) rs)
                               (map (fun fr => (fst fr, map (fun r => snd r) (snd fr))) frs')))
                  | None => None end
              | None => None end
          | None => None end
      end
  end.

(* ------------------------------------------------------------------------------------------ *)
(* get_formatted_variables, _combine_variables, _build_variable_definitions, the request        *)
(* ------------------------------------------------------------------------------------------ *)
Definition fmt_entry (fv : fvar) : string * var := (fv_key fv, fv_var fv).

(* own variables, then .update(subfield.get_formatted_variables()) for every subfield and every
   fragment member — recursive since fix 18db886.  [fuel] as in to_ast. *)
Fixpoint get_formatted_variables (fuel : nat) (n : node) : list (string * var) :=
  match fuel with
  | 0 => []
  | S f =>
      match n with
      | N d subs frs =>
        dupdate (map fmt_entry (d_fmt d))
                (flat_map (get_formatted_variables f) subs ++
                 flat_map (fun fr : string * list node => flat_map (get_formatted_variables f) (snd fr)) frs)%list
      end
  end.

Record request := { r_vardefs : list (string * string);     (* $name: Type, in order *)
                    r_sels : list (sel string);
                    r_values : list (string * json) }.

(* _build_selection_set: used_names = set(); [field.to_ast(idx, used_names) for idx, field in
   enumerate(fields)] — ONE set for the whole operation since fix 565c1eb *)
Fixpoint build_sels_from (fuel : nat) (idx : nat) (used : list string) (ns : list node)
  : option (list string * list (sel string * node)) :=
  match ns with
  | [] => Some (used, [])
  | n :: r =>
      match to_ast fuel idx used n with
      | Some (s1, sn) =>
          match build_sels_from fuel (S idx) s1 r with
          | Some (s2, sns) => Some (s2, sn :: sns)
          | None => None end
      | None => None end
  end.
Definition build_sels (fuel : nat) (ns : list node) : option (list (sel string * node)) :=
  option_map snd (build_sels_from fuel 0 [] ns).

Definition combine (fuel : nat) (ns : list node) : list (string * var) :=
  fold_left (fun acc n => dupdate acc (get_formatted_variables fuel n)) ns [].

Definition build_request (fuel : nat) (ns : list node) : option request :=
  match build_sels fuel ns with
  | Some sns =>
      let comb := combine fuel (map (fun r => snd r) sns) in
      Some {| r_vardefs := map (fun kv => (fst kv, v_type (snd kv))) comb;
              r_sels := map (fun r => fst r) sns;
              r_values := map (fun kv => (fst kv, v_value (snd kv))) comb |}
  | None => None end.

(* client.query(e1, ..., en): evaluate the arguments left to right, then build.  No state is read or
   written: the request is a function of the expressions alone. *)
Definition run_op (ct : list classmeta) (fuel : nat) (es : list bexpr) : option request :=
  match evals ct es with
  | Some ns => build_request fuel ns
  | None => None end.

(* ------------------------------------------------------------------------------------------ *)
(* Specification side: the request the property demands for an expression                      *)
(* ------------------------------------------------------------------------------------------ *)
(* ideal object tree: no sharing, GraphQL names, exact types, caller's values (serialised), None
   arguments omitted *)
Fixpoint ideal_vars (ams : list argmeta) (args : list (string * json)) : option (list var) :=
  match ams with
  | [] => Some []
  | am :: r =>
      match (match dlookup (am_gql am) args with
             | Some v => Some v
             | None => if am_required am then None else Some JNull end), ideal_vars r args with
      | Some v, Some vs =>
          Some (if is_null v then vs
                else {| v_name := am_gql am; v_type := am_exact am;
                        v_value := if am_ser am then ser_spec (am_ty am) v else v |} :: vs)
      | _, _ => None
      end
  end.

Section Ideal.
Variable ct : list classmeta.
Fixpoint ideal (e : bexpr) : option node :=
  let ideals := fix go (l : list bexpr) : option (list node) :=
    match l with
    | [] => Some []
    | x :: r => match ideal x, go r with Some n, Some ns => Some (n :: ns) | _, _ => None end
    end in
  match e with
  | Attr cls f =>
      match find_fm ct cls f with
      | Some fm => if fm_method fm then None
                   else Some (N (fresh_data (fm_gql fm) (fm_okind fm) []) [] [])
      | None => None end
  | Call cls f args =>
      match find_fm ct cls f with
      | Some fm =>
          if fm_method fm && args_known (fm_args fm) args then
            match ideal_vars (fm_args fm) args with
            | Some vs => Some (N (fresh_data (fm_gql fm) (fm_okind fm) vs) [] [])
            | None => None end
          else None
      | None => None end
  | Fields e0 es =>
      match ideal e0, ideals es with
      | Some (N d subs frs), Some ns =>
          if can_fields (d_kind d) then Some (N d (subs ++ ns)%list frs) else None
      | _, _ => None end
  | Alias e0 a =>
      match ideal e0 with
      | Some (N d subs frs) => Some (N (set_alias d a) subs frs)
      | None => None end
  | On e0 t es =>
      match ideal e0, ideals es with
      | Some (N d subs frs), Some ns =>
          if can_on (d_kind d) then Some (N d subs (dset frs t ns)) else None
      | _, _ => None end
  end.
Fixpoint ideals (l : list bexpr) : option (list node) :=
  match l with
  | [] => Some []
  | x :: r => match ideal x, ideals r with Some n, Some ns => Some (n :: ns) | _, _ => None end
  end.
End Ideal.

(* the selection an (ideal, sharing-free) object tree stands for, arguments carrying [pj var] *)
Fixpoint node_sel {A} (pj : var -> A) (fuel : nat) (n : node) : option (sel A) :=
  match fuel with
  | 0 => None
  | S f =>
      match n with
      | N d subs frs =>
          match omap (node_sel pj f) subs,
                omap (fun fr : string * list node =>
                        option_map (SI (fst fr)) (omap (node_sel pj f) (snd fr))) frs with
          | Some ss, Some fs =>
              Some (SF (eff_alias (d_alias d)) (d_name d)
                       (map (fun v => (v_name v, pj v)) (d_vars d))
                       (if is_nil subs && is_nil frs then None else Some (ss ++ fs)%list))
          | _, _ => None end
      end
  end.

(* substitute every variable of a model selection by what [look] knows about it *)
Fixpoint resolve {A} (look : string -> option A) (s : sel string) : option (sel A) :=
  let all := fix go (l : list (sel string)) : option (list (sel A)) :=
    match l with
    | [] => Some []
    | x :: r => match resolve look x, go r with Some a, Some b => Some (a :: b) | _, _ => None end
    end in
  let rargs := fix ga (l : list (string * string)) : option (list (string * A)) :=
    match l with
    | [] => Some []
    | (an, vn) :: r => match look vn, ga r with
                       | Some a, Some b => Some ((an, a) :: b) | _, _ => None end
    end in
  match s with
  | SF al nm args sels =>
      match rargs args, (match sels with
                         | None => Some None
                         | Some l => option_map Some (all l) end) with
      | Some a, Some sl => Some (SF al nm a sl)
      | _, _ => None end
  | SI t l => option_map (SI t) (all l)
  end.
Fixpoint resolves {A} (look : string -> option A) (l : list (sel string)) : option (list (sel A)) :=
  match l with
  | [] => Some []
  | x :: r => match resolve look x, resolves look r with
              | Some a, Some b => Some (a :: b) | _, _ => None end
  end.

(* a variable is resolved to (declared type, bound value); undeclared or unbound -> None *)
Definition look_req (rq : request) (vn : string) : option (string * json) :=
  match dlookup vn (r_vardefs rq), dlookup vn (r_values rq) with
  | Some t, Some v => Some (t, v)
  | _, _ => None end.
Definition tv (v : var) : string * json := (v_type v, v_value v).

(* the request the property demands, as resolved selections *)
Definition ideal_sels (ct : list classmeta) (fuel : nat) (es : list bexpr) : option (list (sel (string * json))) :=
  match ideals ct es with
  | Some ns => omap (node_sel tv fuel) ns
  | None => None end.

(* ------------------------------------------------------------------------------------------ *)
(* Precondition on the caller's values                                                          *)
(* ------------------------------------------------------------------------------------------ *)
(* g_conform: the arguments of every call respect non-null item positions of serialised scalars
   (a precondition on the caller's values, not a finding class) *)
Definition arg_value (am : argmeta) (args : list (string * json)) : json :=
  match dlookup (am_gql am) args with Some v => v | None => JNull end.
Definition args_conform (ams : list argmeta) (args : list (string * json)) : bool :=
  forallb (fun am => negb (am_ser am) || nn_ok true (am_ty am) (arg_value am args)) ams.
Fixpoint g_conform (ct : list classmeta) (e : bexpr) : bool :=
  let all := fix go (l : list bexpr) : bool :=
    match l with [] => true | x :: r => g_conform ct x && go r end in
  match e with
  | Attr _ _ => true
  | Call cls f args => match find_fm ct cls f with Some fm => args_conform (fm_args fm) args | None => true end
  | Fields e0 es => g_conform ct e0 && all es
  | Alias e0 _ => g_conform ct e0
  | On e0 _ es => g_conform ct e0 && all es
  end.

(* all formatted variable keys of an annotated object tree (inline part), traversal order *)
Fixpoint all_keys (fuel : nat) (n : node) : list string :=
  match fuel with
  | 0 => []
  | S f =>
      match n with
      | N d subs frs => (map fv_key (d_fmt d) ++ flat_map (all_keys f) subs ++
                        flat_map (fun fr : string * list node => flat_map (all_keys f) (snd fr)) frs)%list
      end
  end.
Fixpoint nodupb (l : list string) : bool :=
  match l with [] => true | x :: r => negb (mem x r) && nodupb r end.

(* ------------------------------------------------------------------------------------------ *)
(* S-expression interface                                                                      *)
(* ------------------------------------------------------------------------------------------ *)
Fixpoint d_gtype (fuel : nat) (e : sexp) : option gtype :=
  match fuel with
  | 0 => None
  | S f =>
      match e with
      | L [A "n"; A s] => Some (TNamed s)
      | L [A "l"; t] => option_map TList (d_gtype f t)
      | L [A "nn"; t] => option_map TNonNull (d_gtype f t)
      | _ => None end
  end.
Definition d_arg (e : sexp) : option argdef :=
  match e with
  | L [A n; t] => option_map (fun ty => {| a_name := n; a_type := ty |}) (d_gtype 16 t)
  | _ => None end.
Definition d_field (e : sexp) : option fdef :=
  match e with
  | L [A n; args; t] =>
      match dList d_arg args, d_gtype 16 t with
      | Some a, Some ty => Some {| fd_name := n; fd_args := a; fd_type := ty |}
      | _, _ => None end
  | _ => None end.
Definition d_tkind (e : sexp) : option tkind :=
  match e with
  | A "o" => Some KObj | A "i" => Some KIface | A "u" => Some KUnion | A "l" => Some KLeaf
  | _ => None end.
Definition d_tdef (e : sexp) : option tdef :=
  match e with
  | L [A n; k; fs; ifs] =>
      match d_tkind k, dList d_field fs, dList dStr ifs with
      | Some k', Some fs', Some is' =>
          Some {| t_name := n; t_kind := k'; t_fields := fs'; t_ifaces := is' |}
      | _, _, _ => None end
  | _ => None end.
Definition d_conf (e : sexp) : option gconf :=
  match e with
  | L [b; sers] => match dB b, dList dStr sers with
                   | Some b', Some l => Some {| c_snake := b'; c_ser := l |}
                   | _, _ => None end
  | _ => None end.
(* (conf schema query-root mutation-root) *)
Definition d_world (e : sexp) : option (list classmeta) :=
  match e with
  | L [c; s; q; m] =>
      match d_conf c, dList d_tdef s, dOpt dStr q, dOpt dStr m with
      | Some c', Some s', Some q', Some m' => Some (gen_classes c' s' q' m')
      | _, _, _, _ => None end
  | _ => None end.

Fixpoint d_bexpr (fuel : nat) (e : sexp) : option bexpr :=
  match fuel with
  | 0 => None
  | S f =>
      let d_args := dList (fun p => match p with
                                    | L [A k; v] => option_map (fun j => (k, j)) (json_of_sexp v)
                                    | _ => None end) in
      match e with
      | L [A "attr"; A c; A x] => Some (Attr c x)
      | L [A "call"; A c; A x; args] => option_map (Call c x) (d_args args)
      | L [A "fields"; e0; es] =>
          match d_bexpr f e0, dList (d_bexpr f) es with
          | Some a, Some b => Some (Fields a b) | _, _ => None end
      | L [A "alias"; e0; A a] => option_map (fun x => Alias x a) (d_bexpr f e0)
      | L [A "on"; e0; A t; es] =>
          match d_bexpr f e0, dList (d_bexpr f) es with
          | Some a, Some b => Some (On a t b) | _, _ => None end
      | _ => None end
  end.

Definition s_str (s : string) : sexp := A s.
Definition s_okind (k : okind) : sexp :=
  A (match k with OFields => "fields" | OIface => "iface" | OUnion => "union" | OLeaf => "leaf" end).
Definition s_argmeta (am : argmeta) : sexp :=
  L [A (am_gql am); A (am_py am); A (am_type am); A (am_exact am); sB (am_required am);
     A (if am_ser am then ser_shape true (am_ty am) else "")].
Definition s_fieldmeta (fm : fieldmeta) : sexp :=
  L [A (fm_py fm); A (fm_gql fm); A (fm_emit fm); sB (fm_method fm); A (fm_cls fm);
     s_okind (fm_okind fm); sList s_argmeta (fm_args fm)].
Definition s_class (cm : classmeta) : sexp := L [A (cm_name cm); sList s_fieldmeta (cm_fields cm)].

Fixpoint s_sel {X} (sa : X -> list sexp) (fuel : nat) (s : sel X) : sexp :=
  match fuel with
  | 0 => sErr "depth"
  | S f =>
      match s with
      | SF al nm args sels =>
          L [A "f"; sOpt s_str al; A nm; sList (fun p => L (A (fst p) :: sa (snd p))) args;
             sOpt (sList (s_sel sa f)) sels]
      | SI t l => L [A "i"; A t; sList (s_sel sa f) l]
      end
  end.
Definition s_request (rq : request) : sexp :=
  L [A "ok";
     sList (fun kv => L [A (fst kv); A (snd kv)]) (r_vardefs rq);
     sList (s_sel (fun v : string => [A v]) 64) (r_sels rq);
     sList (fun kv => L [A (fst kv); json_to_sexp (snd kv)]) (r_values rq)].
Definition s_ideal (l : list (sel (string * json))) : sexp :=
  L [A "ok"; sList (s_sel (fun p : string * json => [A (fst p); json_to_sexp (snd p)]) 64) l].

Definition FUEL := 64.

Definition guards_sexp (ct : list classmeta) (es : list bexpr) : sexp :=
  L [sB (forallb (g_conform ct) es)].

(* does the request resolve to the ideal? (the full property on this input, decided) *)
Definition sel_eqb_sexp (a b : sexp) : bool :=
  (fix eq (fuel : nat) (a b : sexp) : bool :=
     match fuel with
     | 0 => false
     | S f =>
         match a, b with
         | A x, A y => streq x y
         | L x, L y => (fix eql (x y : list sexp) : bool :=
                          match x, y with
                          | [], [] => true
                          | p :: x', q :: y' => eq f p q && eql x' y'
                          | _, _ => false end) x y
         | _, _ => false end
     end) 200 a b.

(* per operation of a history: request, ideal, guards, cross-field key distinctness, faithful?
   (operations are independent in the model; the history only matters on the real code) *)
Definition run_one (ct : list classmeta) (es : list bexpr) : sexp :=
  let idl := match ideal_sels ct FUEL es with Some l => s_ideal l | None => sErr "ideal" end in
  match evals ct es with
  | None => L [sErr "eval"; idl; guards_sexp ct es; A "f"; A "f"]
  | Some ns =>
      match build_request FUEL ns with
      | None => L [sErr "build"; idl; guards_sexp ct es; A "f"; A "f"]
      | Some rq =>
          let keys := match build_sels FUEL ns with
                      | Some sns => flat_map (fun r => all_keys FUEL (snd r)) sns
                      | None => [] end in
          let res := match resolves (look_req rq) (r_sels rq) with
                     | Some l => s_ideal l | None => sErr "unresolved" end in
          L [s_request rq; idl; guards_sexp ct es; sB (nodupb keys);
             sB (sel_eqb_sexp res idl && negb (sel_eqb_sexp idl (sErr "ideal")))]
      end
  end.
(* a failing operation raises in Python: the harness stops the history there, so does the model *)
Fixpoint run_ops (ct : list classmeta) (h : list (list bexpr)) : list sexp :=
  match h with
  | [] => []
  | es :: r =>
      let o := run_one ct es in
      match o with
      | L (L [A "error"; _] :: _) => [o]
      | _ => o :: run_ops ct r
      end
  end.

Definition run_builder (e : sexp) : sexp :=
  match e with
  | L [A "classes"; w] =>
      match d_world w with
      | Some ct => L [A "ok"; sList s_class ct]
      | None => sErr "builder: bad world" end
  | L [A "ops"; w; h] =>
      match d_world w, dList (dList (d_bexpr 32)) h with
      | Some ct, Some hist => L (run_ops ct hist)
      | _, _ => sErr "builder: bad ops" end
  | L [A "suffixes"] =>
      L [A (class_suffix KObj); A (class_suffix KIface); A (class_suffix KUnion); A (class_suffix KLeaf)]
  | L [A "fmtname"; i; A v; used] =>
      match dNat i, dList dStr used with
      | Some i', Some u => sOpt s_str (format_variable_name i' v u)
      | _, _ => sErr "builder: bad fmtname" end
  | _ => sErr "builder: bad command"
  end.
