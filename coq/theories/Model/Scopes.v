(* C18, scope level: how the generator gives the names of ONE scope their Python names when the scope
   itself keeps them apart.

   Two places of /repo do that (the other scopes call process_name only):
     client_generators/arguments.py  ArgumentsGenerator.generate      (variables of one operation)
     client_generators/input_types.py InputTypesGenerator._parse_input_definition (fields of one input)
   Both run, per name in document order,
        name = process_name(...)                       [arguments: "_" + name when not name.isidentifier()]
        while name in used_names: name += "_"
        used_names.add(name)
   Executable definitions only; proofs are in Proofs/ScopesP.v. *)
From Coq Require Import List String Ascii Bool Arith.
From AC Require Import Base.Strs Base.Sexp Model.Names.
Import ListNotations.
Local Open Scope list_scope.

(* `while name in used: name += "_"`.  Python's loop has no bound; it ends because every round names a
   longer string and [used] is finite.  The model runs it on fuel [S (length used)], which Proofs/ScopesP.v
   shows is always enough (fresh_not_used), so the out-of-fuel branch is never the answer. *)
Fixpoint fresh_go (fuel : nat) (n : chars) (used : list chars) : chars :=
  match fuel with
  | 0 => n
  | S f => if mem_chars n used then fresh_go f (app n ["_"%char]) used else n
  end.
Definition fresh (n : chars) (used : list chars) : chars := fresh_go (S (List.length used)) n used.

(* one scope: names in order, [used] grows by every name handed out *)
Fixpoint assign (base : chars -> chars) (names : list chars) (used : list chars) : list chars :=
  match names with
  | [] => []
  | n :: ns => let p := fresh (base n) used in p :: assign base ns (p :: used)
  end.

(* arguments.py: process_name without trimming / reserved handling, then the identifier repair *)
Definition var_flags (snake : bool) : pflags := {| f_snake := snake; f_trim := false; f_reserved := false |}.
Definition var_base (snake : bool) (n : chars) : chars :=
  let p := process_name (var_flags snake) n in
  if py_identifier p then p else "_"%char :: p.
(* reserved: _get_reserved_argument_names() plus the reserved_names argument (self, kwargs, the method's
   locals, UNSET, gql, the result class ...); data handed in by the caller, as in the code *)
Definition var_names (snake : bool) (reserved names : list chars) : list chars :=
  assign (var_base snake) names reserved.

(* input_types.py: process_name with trimming and reserved handling; the scope starts empty *)
Definition input_flags (snake : bool) : pflags := {| f_snake := snake; f_trim := true; f_reserved := true |}.
Definition input_base (snake : bool) (n : chars) : chars := process_name (input_flags snake) n.
Definition input_field_names (snake : bool) (names : list chars) : list chars :=
  assign (input_base snake) names [].

(* the declaration of an input field: Python name and, when it differs from the GraphQL name, the alias *)
Definition input_decls (snake : bool) (names : list chars) : list (chars * option chars) :=
  map (fun pn => (fst pn, if chars_eqb (fst pn) (snd pn) then None else Some (snd pn)))
      (combine (input_field_names snake names) names).

(* ---- sexp interface: the C18 engine answers the Names commands and these ---- *)
Local Open Scope string_scope.
Definition dStrs (e : sexp) : option (list chars) :=
  match e with
  | L xs => fold_right (fun x acc => match x, acc with
                                     | A s, Some r => Some (s2l s :: r)
                                     | _, _ => None end) (Some []) xs
  | _ => None
  end.
Definition sStrs (l : list chars) : sexp := L (map (fun x => A (l2s x)) l).

Definition run_scopes (e : sexp) : sexp :=
  match e with
  | L [A "var_names"; sn; res; ns] =>
      match dB sn, dStrs res, dStrs ns with
      | Some s, Some r, Some n => sStrs (var_names s r n)
      | _, _, _ => sErr "var_names: bad arguments" end
  | L [A "input_names"; sn; ns] =>
      match dB sn, dStrs ns with
      | Some s, Some n =>
          L (map (fun d => L [A (l2s (fst d)); match snd d with Some a => L [A (l2s a)] | None => L [] end])
                 (input_decls s n))
      | _, _ => sErr "input_names: bad arguments" end
  | L [A "fresh"; A n; us] =>
      match dStrs us with
      | Some u => A (l2s (fresh (s2l n) u))
      | None => sErr "fresh: bad arguments" end
  | _ => run_names e
  end.
