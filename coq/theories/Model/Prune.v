(* C09 — pruning of unused inputs and enums.  Executable definitions only.

   Mirrors, function by function:
     InputTypesGenerator._get_dependencies_of_type   (dfs / deps_opt)
     InputTypesGenerator._filter_class_defs          (closure_opt / filter_defs)
     InputTypesGenerator.generate + get_used_enums   (gen_inputs / input_used_enums)
     EnumsGenerator._filter_class_defs               (filter_defs on the enum class list)
     PackageGenerator.add_operation / generate       (used_enums accumulation: results (add_operation runs
                                                      before generate) -> retained inputs -> fragments module
                                                      -> builder argument enums (custom operations only)
                                                      -> client arguments; then _generate_enums)
   A class definition is an abstract payload A (its source text in the tie). *)
From Coq Require Import List String Bool Arith.
From AC Require Import Base.Strs Base.Sexp Model.Names.
Import ListNotations.

Definition mem (x : string) (l : list string) : bool := existsb (String.eqb x) l.

(* dependency dict: input type -> input types of its fields, field order, duplicates kept.
   A missing key reads as [] (collections.defaultdict(list)). *)
Definition graph := list (string * list string).

Fixpoint succs (g : graph) (n : string) : list string :=
  match g with
  | [] => []
  | (k, v) :: r => if String.eqb k n then v else succs r n
  end.

Fixpoint fold_opt {A B} (f : A -> B -> option A) (l : list B) (a : A) : option A :=
  match l with
  | [] => Some a
  | b :: r => match f a b with Some a' => fold_opt f r a' | None => None end
  end.

(* def dfs(node): if node not in visited: visited.add(node); result.append(node);
                  for neighbor in deps[node]: dfs(neighbor)
   `vis` is both the visited set and the result list (they grow together).  Fuel bounds the
   recursion DEPTH; None = out of fuel (never for deps_opt, theorem dfs_total). *)
Fixpoint dfs (fuel : nat) (g : graph) (vis : list string) (n : string) : option (list string) :=
  match fuel with
  | 0 => None
  | S f => if mem n vis then Some vis
           else fold_opt (dfs f g) (succs g n) (vis ++ [n])%list
  end.

Definition nodes (g : graph) : list string := (map fst g ++ flat_map snd g)%list.

Definition deps_opt (g : graph) (t : string) : option (list string) :=
  dfs (2 + List.length (nodes g)) g [] t.

(* types_names = set(); for name in types_to_include: types_names.update(deps(name)) *)
Fixpoint closure_opt (g : graph) (roots : list string) : option (list string) :=
  match roots with
  | [] => Some []
  | r :: rs => match deps_opt g r, closure_opt g rs with
               | Some a, Some b => Some (a ++ b)%list
               | _, _ => None
               end
  end.

(* [class_def for class_def in self._class_defs if class_def.name in names] *)
Definition filter_defs {A} (defs : list (string * A)) (names : list string) : list (string * A) :=
  filter (fun d => mem (fst d) names) defs.

(* ---- the two generators and the package ---- *)
Record input_def (A : Type) := {
  i_name : string; i_deps : list string; i_enums : list string; i_body : A;
  i_needs : list string;          (* import items "module:name" the class body refers to *)
  i_scalar_items : list string    (* import items contributed by its custom-scalar fields (type/serialize/parse) *)
}.
Arguments i_name {A}. Arguments i_deps {A}. Arguments i_enums {A}. Arguments i_body {A}.
Arguments i_needs {A}. Arguments i_scalar_items {A}.

Record pkg (A : Type) := {
  p_inputs : list (input_def A);          (* schema.type_map order *)
  p_enums : list (string * A);            (* schema.type_map order *)
  p_arg_inputs : list string;             (* ArgumentsGenerator._used_inputs, all operations *)
  p_arg_enums : list string;              (* ArgumentsGenerator._used_enums *)
  p_res_enums : list string;              (* ResultTypesGenerator.get_used_enums, operations in order *)
  p_frag_enums : list string;             (* FragmentsGenerator.get_used_enums *)
  p_custom : bool;                        (* enable_custom_operations *)
  p_builder_inputs : list string;         (* _get_custom_operations_arguments_types()[0] (fix c0f9ed8) *)
  p_builder_enums : list string;          (* _get_custom_operations_arguments_types()[1] *)
  p_preamble : list string;               (* the fixed imports of input_types.py (typing, pydantic, base_model) *)
}.
Arguments p_inputs {A}. Arguments p_enums {A}. Arguments p_arg_inputs {A}. Arguments p_arg_enums {A}.
Arguments p_res_enums {A}. Arguments p_frag_enums {A}. Arguments p_custom {A}.
Arguments p_builder_inputs {A}. Arguments p_builder_enums {A}. Arguments p_preamble {A}.

(* types_to_include of _generate_input_types: the variables' input types, plus the argument input types
   of every field the operation-builder modules expose when custom operations are enabled *)
Definition roots {A} (p : pkg A) : list string :=
  (p_arg_inputs p ++ (if p_custom p then p_builder_inputs p else []))%list.
Definition builder_enums {A} (p : pkg A) : list string :=
  if p_custom p then p_builder_enums p else [].

Definition dep_graph {A} (p : pkg A) : graph := map (fun d => (i_name d, i_deps d)) (p_inputs p).
Definition input_defs {A} (p : pkg A) : list (string * A) := map (fun d => (i_name d, i_body d)) (p_inputs p).

(* InputTypesGenerator.generate(types_to_include) -> retained class defs *)
Definition gen_inputs {A} (p : pkg A) (all_inputs : bool) : option (list (string * A)) :=
  if all_inputs then Some (input_defs p)
  else match closure_opt (dep_graph p) (roots p) with
       | Some names => Some (filter_defs (input_defs p) names)
       | None => None
       end.

Fixpoint enums_of {A} (ins : list (input_def A)) (n : string) : list string :=
  match ins with
  | [] => []
  | d :: r => if String.eqb (i_name d) n then i_enums d else enums_of r n
  end.

(* get_used_enums: for input_name in generated_public_names: enums.extend(used_enums[input_name]) *)
Definition input_used_enums {A} (p : pkg A) (retained : list (string * A)) : list string :=
  flat_map (fun d => enums_of (p_inputs p) (fst d)) retained.

(* PackageGenerator._used_enums just before _generate_enums *)
Definition used_enums {A} (p : pkg A) (retained : list (string * A)) : list string :=
  (p_res_enums p ++ input_used_enums p retained ++ p_frag_enums p ++ builder_enums p ++ p_arg_enums p)%list.

Definition gen_enums {A} (p : pkg A) (all_enums : bool) (retained : list (string * A)) : list (string * A) :=
  if all_enums then p_enums p else filter_defs (p_enums p) (used_enums p retained).

(* ---- imports of input_types.py ----
   InputTypesGenerator.generate puts in front of the classes: the fixed preamble, `from .enums import <enums of
   the RETAINED inputs>` and the imports of EVERY custom scalar used by ANY input (self._used_scalars is global,
   pruning does not touch it); ast_to_str then lets autoflake drop the imports nothing refers to.
   Quirk reproduced faithfully: when some input uses an enum but no retained one does, the enum import has no
   names, the module text is not parseable for autoflake, nothing is removed (isort drops the empty line). *)
Definition enum_item (e : string) : string := String.append ".enums:" e.
Definition is_nil {X} (l : list X) : bool := match l with [] => true | _ => false end.

Fixpoint needs_lookup {A} (ins : list (input_def A)) (n : string) : list string :=
  match ins with
  | [] => []
  | d :: r => if String.eqb (i_name d) n then i_needs d else needs_lookup r n
  end.

Definition candidates {A} (p : pkg A) (retained : list (string * A)) : list string :=
  (p_preamble p ++ map enum_item (input_used_enums p retained) ++ flat_map i_scalar_items (p_inputs p))%list.
Definition needs_of {A} (p : pkg A) (retained : list (string * A)) : list string :=
  flat_map (fun d => needs_lookup (p_inputs p) (fst d)) retained.
Definition autoflake_gives_up {A} (p : pkg A) (retained : list (string * A)) : bool :=
  existsb (fun d => negb (is_nil (i_enums d))) (p_inputs p) && is_nil (input_used_enums p retained).
Definition module_imports {A} (p : pkg A) (retained : list (string * A)) : list string :=
  if autoflake_gives_up p retained then candidates p retained
  else filter (fun it => mem it (needs_of p retained)) (candidates p retained).

(* ---- what a class body refers to, DERIVED from its fields (input_fields.parse_input_field_type,
   scalars.generate_input_scalar_annotation, parse_input_field_default_value, _process_field_value) ----
   A field annotation is Optional[...] at every nullable level, List[...] at every list level, around:
   a builtin Python type, Any (unconfigured custom scalar), Upload, an enum name, a quoted input class name, or a
   configured custom scalar: its type name, wrapped in Annotated[type, PlainSerializer(serialize)] when a
   serializer is configured.  Field(...) appears when the Python name differs from the GraphQL name (alias) or the
   default is a list / object literal (default_factory). *)
Local Open Scope string_scope.
Inductive fbase :=
| BPlain | BAny | BUpload
| BEnum (e : string) | BInput (n : string)
| BCustom (ty ser par : option string) (has_ser : bool).   (* import items of the dotted paths *)
Record ifield := { if_name : string; if_nullable : bool; if_list : bool; if_base : fbase; if_coll_default : bool }.

Definition opt_item (o : option string) : list string := match o with Some x => [x] | None => [] end.
Definition input_flags (snake : bool) : pflags := {| f_snake := snake; f_trim := true; f_reserved := true |}.
Definition aliased (snake : bool) (n : string) : bool :=
  negb (String.eqb (l2s (process_name (input_flags snake) (s2l n))) n).

Definition base_needs (b : fbase) : list string :=
  match b with
  | BPlain | BInput _ => []
  | BAny => ["typing:Any"]
  | BUpload => [".base_model:Upload"]
  | BEnum e => [enum_item e]
  | BCustom ty ser _ has_ser =>
      (opt_item ty ++ (if has_ser then "typing:Annotated" :: "pydantic:PlainSerializer" :: opt_item ser else []))%list
  end.
Definition field_needs (snake : bool) (f : ifield) : list string :=
  ((if if_nullable f then ["typing:Optional"] else []) ++ (if if_list f then ["typing:List"] else []) ++
   base_needs (if_base f) ++
   (if aliased snake (if_name f) || if_coll_default f then ["pydantic:Field"] else []))%list.
Definition field_deps (f : ifield) : list string := match if_base f with BInput n => [n] | _ => [] end.
Definition field_enums (f : ifield) : list string := match if_base f with BEnum e => [e] | _ => [] end.
Definition field_scalar_items (f : ifield) : list string :=
  match if_base f with BCustom ty ser par _ => (opt_item ty ++ opt_item ser ++ opt_item par)%list | _ => [] end.

Definition derive {A} (snake : bool) (name : string) (body : A) (fs : list ifield) : input_def A :=
  {| i_name := name; i_deps := flat_map field_deps fs; i_enums := flat_map field_enums fs; i_body := body;
     i_needs := ".base_model:BaseModel" :: flat_map (field_needs snake) fs;
     i_scalar_items := flat_map field_scalar_items fs |}.

Definition std_preamble : list string :=
  ["typing:Optional"; "typing:Any"; "typing:Union"; "typing:List"; "typing:Annotated";
   "pydantic:Field"; "pydantic:PlainSerializer"; ".base_model:BaseModel"; ".base_model:Upload"].

(* the whole pruning pipeline: (retained input classes, retained enum classes) *)
Definition generate {A} (p : pkg A) (all_inputs all_enums : bool)
  : option (list (string * A) * list (string * A)) :=
  match gen_inputs p all_inputs with
  | Some ins => Some (ins, gen_enums p all_enums ins)
  | None => None
  end.

Local Open Scope string_scope.
(* ---- sexp interface ----
   (deps ((k (v ...)) ...) t)                         -> (some (n ...)) | none
   (closure graph (root ...))                         -> (some (n ...)) | none
   (generate ((name (dep ...) (enum ...) body (need ...) (scalar-item ...)) ...) ((ename body) ...)
             (arg_inputs ...) (arg_enums ...) (res_enums ...) (frag_enums ...) all_inputs all_enums
             custom (builder_inputs ...) (builder_enums ...) (preamble ...))
        -> (some (((name body) ...) ((ename body) ...) (used enum list) (import items of input_types.py)
                  autoflake-gives-up))  | none *)
Definition dStrs (e : sexp) : option (list string) := dList dStr e.

Definition dGraph (e : sexp) : option graph :=
  dList (fun x => match x with
                  | L [A k; v] => match dStrs v with Some l => Some (k, l) | None => None end
                  | _ => None end) e.

Definition dInput (e : sexp) : option (input_def string) :=
  match e with
  | L [A n; ds; es; A body; nd; sc] =>
      match dStrs ds, dStrs es, dStrs nd, dStrs sc with
      | Some d, Some en, Some x, Some y =>
          Some {| i_name := n; i_deps := d; i_enums := en; i_body := body; i_needs := x; i_scalar_items := y |}
      | _, _, _, _ => None end
  | _ => None
  end.

Definition dBase (e : sexp) : option fbase :=
  match e with
  | A "plain" => Some BPlain
  | A "any" => Some BAny
  | A "upload" => Some BUpload
  | L [A "enum"; A x] => Some (BEnum x)
  | L [A "input"; A x] => Some (BInput x)
  | L [A "custom"; ty; se; pa; hs] =>
      match dOpt dStr ty, dOpt dStr se, dOpt dStr pa, dB hs with
      | Some a, Some b, Some c, Some d => Some (BCustom a b c d)
      | _, _, _, _ => None end
  | _ => None
  end.
Definition dField (e : sexp) : option ifield :=
  match e with
  | L [A n; nu; li; b; co] =>
      match dB nu, dB li, dBase b, dB co with
      | Some x, Some y, Some z, Some w =>
          Some {| if_name := n; if_nullable := x; if_list := y; if_base := z; if_coll_default := w |}
      | _, _, _, _ => None end
  | _ => None
  end.
(* (derived name body snake (field ...)) : an input class given by its fields *)
Definition dInputAny (e : sexp) : option (input_def string) :=
  match e with
  | L [A "derived"; A n; A body; sn; fs] =>
      match dB sn, dList dField fs with
      | Some b, Some f => Some (derive b n body f)
      | _, _ => None end
  | _ => dInput e
  end.

Definition dEnumDef (e : sexp) : option (string * string) :=
  match e with L [A n; A b] => Some (n, b) | _ => None end.

Definition sDefs (l : list (string * string)) : sexp := L (map (fun d => L [A (fst d); A (snd d)]) l).
Definition sStrs (l : list string) : sexp := L (map A l).

Definition run_prune (e : sexp) : sexp :=
  match e with
  | L [A "deps"; g; A t] =>
      match dGraph g with
      | Some gr => sOpt sStrs (deps_opt gr t)
      | None => sErr "graph" end
  | L [A "closure"; g; rs] =>
      match dGraph g, dStrs rs with
      | Some gr, Some r => sOpt sStrs (closure_opt gr r)
      | _, _ => sErr "closure args" end
  | L [A "generate"; ins; ens; ai; ae; re; fe; fi; fen; cu; bi; be; pre] =>
      match dList dInputAny ins, dList dEnumDef ens, dStrs ai, dStrs ae, dStrs re, dStrs fe, dB fi, dB fen,
            dB cu, dStrs bi, dStrs be, dStrs pre with
      | Some i, Some en, Some a1, Some a2, Some r, Some f, Some b1, Some b2, Some c, Some x1, Some x2, Some pr =>
          let p := {| p_inputs := i; p_enums := en; p_arg_inputs := a1; p_arg_enums := a2;
                      p_res_enums := r; p_frag_enums := f; p_custom := c;
                      p_builder_inputs := x1; p_builder_enums := x2; p_preamble := pr |} in
          match generate p b1 b2 with
          | Some (ri, rn) => L [A "some"; L [sDefs ri; sDefs rn; sStrs (used_enums p ri);
                                             sStrs (module_imports p ri); sB (autoflake_gives_up p ri)]]
          | None => A "none"
          end
      | _, _, _, _, _, _, _, _, _, _, _, _ => sErr "generate args" end
  | L [A "derive"; sn; A n; fs] =>
      match dB sn, dList dField fs with
      | Some b, Some f =>
          let d := derive b n "" f in
          L [sStrs (i_deps d); sStrs (i_enums d); sStrs (i_needs d); sStrs (i_scalar_items d)]
      | _, _ => sErr "derive args" end
  | L [A "std_preamble"] => sStrs std_preamble
  | _ => sErr "prune: bad command"
  end.
