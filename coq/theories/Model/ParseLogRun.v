(* C07 engine entry for whole responses: the classes Model/Results.v generates for an operation, the parse-call log
   of validating a payload against them (Py/ParseLog.v plog), the payload-driven occurrences (pocc), the uniqueness
   guard and acceptance. *)
From Coq Require Import List String Ascii Bool ZArith.
From AC Require Import Base.Sexp Base.Json Gql.Schema Gql.Exec Py.Ann Py.Pydantic Py.ParseLog Model.Results Model.Scalars.
From AC Require Proofs.ResultsRunP Proofs.ResultsObjP.
Import ListNotations.
Local Open Scope string_scope.

Definition sEntries (l : list pentry) : sexp := L (map (fun e => L [A (fst e); json_to_sexp (snd e)]) l).

(* the hypotheses of C07_parse_once_op, evaluated one by one: where all hold the theorem applies.  First those about
   the operation (sub-language with distinct Python names; no class called BaseModel), then those about the payload
   (conformant to the selection, no duplicate keys) *)
Definition op_in_theorem (fuel : nat) (c : cfg) (s : schema) (fs : list fragdef) (cls : list pclass) (d : defn)
  : string * option (string * list sel) :=
  match d with
  | DOp kind name mixins sels =>
      (* mx: the @mixin names of the operation itself (a @mixin on a field then falls outside op_ok) *)
      match root_type_name s kind, op_parse fuel c s fs kind name mixins sels with
      | Ok root, Ok (own, _, false) =>
          if negb (ResultsObjP.op_ok fuel true c s fs mixins mixins root sels) then ("op_ok", None)
          else if negb (ResultsRunP.mx_ok cls mixins) then ("mx_ok", None)
          else if negb (ResultsRunP.no_basemodel own) then ("basemodel", None)
          else ("t", Some (root, sels))
      | Ok _, Ok (_, _, true) => ("ghost", None)
      | _, _ => ("parse", None)
      end
  | _ => ("fragment", None)
  end.

Definition run_parselog (e : sexp) : sexp :=
  match e with
  | L [A "parselog"; fuel; c; s; fs; d; L payloads] =>
      match dNat fuel, d_cfg c, d_schema s, dList d_frag fs, d_defn d, dAll json_of_sexp payloads with
      | Some fuel, Some c, Some s, Some fs, Some d, Some js =>
          match all_classes fuel c s fs d with
          | Ok (root :: rest) =>
              let cs := root :: rest in
              let a := AClass (c_name root) in
              let n := fuel + 2 in
              let thm := op_in_theorem fuel c s fs cs d in
              L [A "ok"; L (map (fun j => L [sEntries (plog n cs a j); sEntries (pocc n cs a j);
                                             sB (uniq n cs a j);
                                             sB (accepts n cs (schema_enums s) a j);
                                             A (match thm with
                                                | (_, Some (rt, sels)) =>
                                                    if negb (conf_op fuel s fs rt sels j) then "conf"
                                                    else if negb (ResultsObjP.jwf j) then "jwf" else "t"
                                                | (why, None) => why end)]) js)]
          | Ok [] => L [A "err"; A "no classes"]
          | Err m => L [A "err"; A m]
          end
      | _, _, _, _, _, _ => sErr "parselog: cannot decode arguments"
      end
  | _ => run_scalars e
  end.
