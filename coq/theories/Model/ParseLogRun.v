(* C07 engine entry for whole responses: the classes Model/Results.v generates for an operation, the parse-call log
   of validating a payload against them (Py/ParseLog.v plog), the payload-driven occurrences (pocc), the uniqueness
   guard and acceptance. *)
From Coq Require Import List String Ascii Bool ZArith.
From AC Require Import Base.Sexp Base.Json Gql.Schema Py.Ann Py.Pydantic Py.ParseLog Model.Results Model.Scalars.
Import ListNotations.
Local Open Scope string_scope.

Definition sEntries (l : list pentry) : sexp := L (map (fun e => L [A (fst e); json_to_sexp (snd e)]) l).

Definition run_parselog (e : sexp) : sexp :=
  match e with
  | L [A "parselog"; fuel; c; s; fs; d; L payloads] =>
      match dNat fuel, d_cfg c, d_schema s, dList d_frag fs, d_defn d, dAll json_of_sexp payloads with
      | Some fuel, Some c, Some s, Some fs, Some d, Some js =>
          match all_classes fuel c s fs d with
          | Ok (root :: rest) =>
              let cs := root :: rest in
              let a := AClass (c_name root) in
              L [A "ok"; L (map (fun j => L [sEntries (plog fuel cs a j); sEntries (pocc fuel cs a j);
                                             sB (uniq fuel cs a j);
                                             sB (accepts fuel cs (schema_enums s) a j)]) js)]
          | Ok [] => L [A "err"; A "no classes"]
          | Err m => L [A "err"; A m]
          end
      | _, _, _, _, _, _ => sErr "parselog: cannot decode arguments"
      end
  | _ => run_scalars e
  end.
