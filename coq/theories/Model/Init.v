(* Model of ariadne_codegen/client_generators/init_file.py (InitFileGenerator) and of Python's
   sorted()/list.sort() on ASCII strings.  Executable definitions only (proofs: Proofs/InitP.v). *)
From Coq Require Import List String Ascii Bool Arith.
From AC Require Import Base.Strs Base.Sexp.
Import ListNotations.

(* str.__le__ on ASCII strings: lexicographic by code point, a proper prefix is smaller *)
Fixpoint chars_leb (a b : chars) : bool :=
  match a, b with
  | [], _ => true
  | _ :: _, [] => false
  | x :: a', y :: b' =>
      if Nat.ltb (code x) (code y) then true
      else if Nat.ltb (code y) (code x) then false
      else chars_leb a' b'
  end.

Fixpoint insert_sorted (x : chars) (l : list chars) : list chars :=
  match l with
  | [] => [x]
  | y :: r => if chars_leb x y then x :: l else y :: insert_sorted x r
  end.

(* sorted(l) / l.sort() *)
Definition sort_chars (l : list chars) : list chars := fold_right insert_sorted [] l.

(* `len(l) != len(set(l))` *)
Fixpoint has_dup (l : list chars) : bool :=
  match l with
  | [] => false
  | x :: r => mem_chars x r || has_dup r
  end.

(* one `from .<ii_from> import <ii_names>` statement of __init__ *)
Record iimport := { ii_from : chars; ii_names : list chars }.

(* InitFileGenerator.add_import: nothing is added for an empty name list *)
Definition add_import (names : list chars) (from_ : chars) (st : list iimport) : list iimport :=
  match names with
  | [] => st
  | _ => st ++ [{| ii_from := from_; ii_names := names |}]
  end.

(* InitFileGenerator.generate: constants_names = concatenation of the imported names, sorted *)
Definition imported_names (st : list iimport) : list chars := flat_map ii_names st.
Definition init_all (st : list iimport) : list chars := sort_chars (imported_names st).

(* ---- sexp helpers ---- *)
Definition sC (c : chars) : sexp := A (l2s c).
Definition sCs (l : list chars) : sexp := L (map sC l).
Definition dC (e : sexp) : option chars := match e with A s => Some (s2l s) | _ => None end.
Definition dCs (e : sexp) : option (list chars) := dList dC e.
Definition sImport (i : iimport) : sexp := L [sC (ii_from i); sCs (ii_names i)].
