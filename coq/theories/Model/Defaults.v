(* Model of ariadne_codegen/client_generators/input_fields.py: parse_input_const_value_node and
   parse_input_field_default_value, and of InputTypesGenerator._process_field_value (merge of alias and
   default into Field(...)).  Executable definitions only. *)
From Coq Require Import List String Ascii ZArith Bool.
From AC Require Import Base.Sexp Base.Strs Gql.InSchema Model.Names.
Import ListNotations.
Local Open Scope string_scope.

Inductive pyconst := PNone | PBool (b : bool) | PInt (z : Z) | PFloat (lexeme : string) | PStr (s : string).

(* the expression fragment the generator emits for input fields
   PName id        ast.Name(id=id)  -- id may contain a dot ("Kind.A"): that is what the code builds
   PField kws      Field(k=v, ...)
   PLambda b       lambda: b
   PValidate T d   globals()["T"].model_validate(d) *)
Inductive pyexpr :=
| PConst (c : pyconst)
| PList (l : list pyexpr)
| PDict (kv : list (string * pyexpr))
| PName (id : string)
| PField (kws : list (string * pyexpr))
| PLambda (body : pyexpr)
| PValidate (ty : string) (arg : pyexpr).

(* enums.py: member name = value, with "_" appended when the value is a Python keyword; the default
   expression refers to that member name (fix a742038) *)
Definition member_name (v : string) : string := if iskeyword (s2l v) then v ++ "_" else v.

Definition default_factory (body : pyexpr) : pyexpr := PField [("default_factory", PLambda body)].

(* parse_input_const_value_node(node, field_type, nested_list, nested_object) *)
Fixpoint const_value_node (ft : string) (v : cvalue) (nested_list nested_object : bool) : pyexpr :=
  match v with
  | CInt z => PConst (PInt z)
  | CFloat s => PConst (PFloat s)
  | CStr s => PConst (PStr s)
  | CBool b => PConst (PBool b)
  | CNull => PConst PNone
  | CEnum e =>
      (* inside an object default field_type is the enclosing input type: the value is emitted as a plain
         string and model_validate resolves the member (fix 9710ea3) *)
      if nested_object then PConst (PStr e) else PName (ft ++ "." ++ member_name e)
  | CList l =>
      let list_ := PList (map (fun x => const_value_node ft x true nested_object) l) in
      if nested_list then list_ else default_factory list_
  | CObj kv =>
      let dict_ := PDict (map (fun p => (fst p, const_value_node ft (snd p) true true)) kv) in
      if nested_object then dict_
      else
        (* an object that is an item of a list default is the bare model_validate call: the enclosing list
           already sits in a default_factory (fix bef1df4) *)
        let model := PValidate ft dict_ in
        if nested_list then model else default_factory model
  end.

(* parse_input_field_default_value(node, annotation, field_type, field); the schema comes from SDL, so the
   AST node is always present and get_default_value_node(field) (introspection fallback, 4077122) yields
   nothing new: without an SDL default the field's default_value is Undefined.
   ann_optional = "annotation is Optional[...]" *)
Definition field_default_value (default : option cvalue) (type_nonnull ann_optional : bool) (ft : string)
  : option pyexpr :=
  match default with
  | Some d => Some (const_value_node ft d false false)
  | None => if negb type_nonnull || ann_optional then Some (PConst PNone) else None
  end.

(* _process_field_value: only called when the Python name differs from the GraphQL name *)
Definition process_field_value (value : option pyexpr) (alias : string) : pyexpr :=
  let a := ("alias", PConst (PStr alias)) in
  match value with
  | None => PField [a]
  | Some (PField kws) => PField (a :: kws)
  | Some e => PField [a; ("default", e)]
  end.

(* ---- what a class-body right-hand side means to pydantic ---- *)
Inductive pdefault := DRequired | DValue (e : pyexpr) | DFactory (body : pyexpr).

Definition rhs_alias (v : option pyexpr) : option string :=
  match v with
  | Some (PField kws) => match lookup "alias" kws with Some (PConst (PStr a)) => Some a | _ => None end
  | _ => None
  end.

Definition rhs_default (v : option pyexpr) : pdefault :=
  match v with
  | None => DRequired
  | Some (PField kws) =>
      match lookup "default_factory" kws with
      | Some (PLambda b) => DFactory b
      | _ => match lookup "default" kws with Some e => DValue e | None => DRequired end
      end
  | Some e => DValue e
  end.

(* ---- S-expression output ---- *)
Definition pyconst_to_sexp (c : pyconst) : sexp :=
  match c with
  | PNone => A "None"
  | PBool b => L [A "bool"; sB b]
  | PInt z => L [A "int"; sZ z]
  | PFloat s => L [A "float"; A s]
  | PStr s => L [A "str"; A s]
  end.

Fixpoint pyexpr_to_sexp (e : pyexpr) : sexp :=
  match e with
  | PConst c => pyconst_to_sexp c
  | PList l => L (A "list" :: map pyexpr_to_sexp l)
  | PDict kv => L (A "dict" :: map (fun p => L [A (fst p); pyexpr_to_sexp (snd p)]) kv)
  | PName id => L [A "name"; A id]
  | PField kws => L (A "Field" :: map (fun p => L [A (fst p); pyexpr_to_sexp (snd p)]) kws)
  | PLambda b => L [A "lambda"; pyexpr_to_sexp b]
  | PValidate t d => L [A "validate"; A t; pyexpr_to_sexp d]
  end.
