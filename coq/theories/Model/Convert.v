(* Model of what happens when a generated client method is CALLED:
   - Python call binding against the generated signature (Model/Args.v),
   - the method body (query local, variables dict, serialize(...) wrapping),
   - base client _convert_dict_to_json_serializable / _convert_value,
   - pydantic model_dump(by_alias=True, exclude_unset=True) of the generated input classes
     (input_types.py: python field name by process_name, alias = GraphQL name),
   - json.dumps(..., default=to_jsonable_python).
   Also: the typing relation "schema-valid Python argument" and the caller's intended GraphQL values.
   Executable definitions only (proofs in Proofs/ConvertP.v). *)
From Coq Require Import List String Ascii ZArith Bool.
From AC Require Import Base.Strs Base.Sexp Base.Json Model.Names Gql.Coerce Model.Args.
From AC Require Gql.InSchema Model.Inputs.
Import ListNotations.
Local Open Scope string_scope.

Inductive pyval :=
| PNone
| PUnset                                   (* the UNSET sentinel of base_model.py *)
| PInt (z : Z)
| PFloat (lexeme : string)
| PStr (s : string)
| PBool (b : bool)
| PEnum (ty v : string)                    (* member of generated str-Enum ty whose value is v *)
| PCustom (j : json)                       (* JSON-native Python data j (custom scalar value) *)
| PList (l : list pyval)
| PModel (cls : string) (kw : list (string * pyval)).
  (* instance of generated input class cls; kw = fields_set, keyed by PYTHON field name *)

(* ---- generated input classes (input_types.py _parse_input_definition) ----
   The Python name of a field depends on the OTHER fields of its type (since /repo bec4417 / a4347c6: "_" is appended
   while the name is taken by an earlier field or - for an aliased field - is the GraphQL name of a field of the type).
   That naming is C06's Model/Inputs.v [fname] (with Proofs/FreshP.v fname_nodup); it only looks at the field names. *)
Definition stub (f : ifield) : InSchema.ifdef :=
  {| InSchema.i_name := if_name f; InSchema.i_type := InSchema.TNamed ""; InSchema.i_default := None |}.
Definition fpy (snake : bool) (all : list ifield) (f : ifield) : string :=
  Inputs.fname snake (map stub all) (if_name f).
(* alias = the GraphQL name when the Python name differs; the wire name is the alias or the Python name *)
Definition fwire (snake : bool) (all : list ifield) (f : ifield) : string :=
  let p := fpy snake all f in if String.eqb p (if_name f) then p else if_name f.

Definition leaf_json (v : pyval) : option json :=
  match v with
  | PInt z => Some (JInt z) | PFloat s => Some (JFloat s) | PStr s => Some (JStr s)
  | PBool b => Some (JBool b) | _ => None
  end.

(* json.dumps(x, default=to_jsonable_python) on data without generated models / UNSET *)
Fixpoint to_json (v : pyval) : option json :=
  match v with
  | PNone => Some JNull
  | PUnset => None                         (* PydanticSerializationError: unknown type UnsetType *)
  | PEnum _ s => Some (JStr s)
  | PCustom j => Some j
  | PList l => option_map JArr (map_opt to_json l)
  | PModel _ _ => None                     (* not modelled: to_jsonable_python(model) dumps by field NAME *)
  | _ => leaf_json v
  end.

Section WithSerialize.
  (* user-supplied serialize functions, by (object) name *)
  Variable ser : string -> pyval -> pyval.

  Definition cfg_ser (c : option scalar_cfg) : option string :=
    match c with Some c' => option_map object_name (sc_ser c') | None => None end.

  Definition dump_custom (c : option scalar_cfg) (v : pyval) : option json :=
    match cfg_ser c with Some f => to_json (ser f v) | None => to_json v end.

  (* fields in class order; only fields that were set (exclude_unset); key = alias or python name *)
  Fixpoint dump_fields (df : gtype -> pyval -> option json) (snake : bool) (all fs : list ifield)
           (kw : list (string * pyval)) : option (list (string * json)) :=
    match fs with
    | [] => Some []
    | f :: r =>
        match assoc (fpy snake all f) kw with
        | None => dump_fields df snake all r kw
        | Some v => match df (if_type f) v, dump_fields df snake all r kw with
                    | Some j, Some o => Some ((fwire snake all f, j) :: o) | _, _ => None end
        end
    end.

  (* pydantic serialisation of one field value, directed by the field's annotation, which
     input_fields.parse_input_field_type builds from the declared type: Optional[...] is emitted where
     its [nullable] flag is true; NonNull clears the flag, list items start nullable again (since /repo
     1ef155d; before, a list handed ITS OWN flag down to its items, finding F21).  [nl] is that flag.
     None at a position whose annotation has no Optional: only a custom scalar annotated Any lets it
     through validation, and then its PlainSerializer is called on None. *)
  Definition type_is_any (c : option scalar_cfg) : bool :=
    match c with None => true | Some c' => String.eqb (object_name (sc_type c')) "Any" end.

  Definition dump_none (S : schema) (nl : bool) (t : gtype) : option json :=
    if nl then Some JNull else
    match t with
    | TNamed nm => match lookup_type S nm with
                   | Some (DCustom c) => if type_is_any c then dump_custom c PNone else None
                   | _ => None end
    | _ => None
    end.

  Fixpoint dump_field (n : nat) (S : schema) (snake : bool) (t : gtype) (nl : bool) (v : pyval)
    : option json :=
    match n with
    | O => None
    | Datatypes.S n' =>
        match t with
        | TNonNull t' => dump_field n' S snake t' false v
        | TList t' =>
            match v with
            | PNone => dump_none S nl t
            | PList l => option_map JArr (map_opt (dump_field n' S snake t' true) l)
            | _ => None
            end
        | TNamed nm =>
            match v with
            | PNone => dump_none S nl t
            | _ =>
                match lookup_type S nm with
                | Some (DBuiltin _) => leaf_json v
                | Some (DEnum _) => match v with PEnum _ s => Some (JStr s) | _ => None end
                | Some (DCustom c) => dump_custom c v
                | Some (DInput fs) =>
                    match v with
                    | PModel _ kw =>
                        option_map JObj (dump_fields (fun t' => dump_field n' S snake t' true) snake fs fs kw)
                    | _ => None
                    end
                | None => None
                end
            end
        end
    end.

  (* would pydantic accept the value for a field with that annotation (construction of the model)? *)
  Fixpoint constructible (n : nat) (S : schema) (snake : bool) (t : gtype) (nl : bool) (v : pyval) : bool :=
    match n with
    | O => false
    | Datatypes.S n' =>
        match t with
        | TNonNull t' => constructible n' S snake t' false v
        | TList t' =>
            match v with
            | PNone => nl
            | PList l => forallb (constructible n' S snake t' true) l
            | _ => false
            end
        | TNamed nm =>
            match v with
            | PNone => nl || match lookup_type S nm with Some (DCustom c) => type_is_any c | _ => false end
            | PUnset => false
            | _ =>
                match lookup_type S nm with
                | Some (DInput fs) =>
                    match v with
                    | PModel _ kw => forallb (fun f => match assoc (fpy snake fs f) kw with
                                                       | Some x => constructible n' S snake (if_type f) true x
                                                       | None => true end) fs
                    | _ => false
                    end
                | Some _ => true
                | None => false
                end
            end
        end
    end.

  (* the models inside a top-level argument were constructed by the caller *)
  Fixpoint constructed (n : nat) (S : schema) (snake : bool) (v : pyval) : bool :=
    match n with
    | O => false
    | Datatypes.S n' =>
        match v with
        | PModel cls _ => constructible n' S snake (TNamed cls) false v
        | PList l => forallb (constructed n' S snake) l
        | _ => true
        end
    end.

  (* base client _convert_value (value-directed) followed by json.dumps *)
  Fixpoint convert_value (n : nat) (S : schema) (snake : bool) (v : pyval) : option json :=
    match n with
    | O => None
    | Datatypes.S n' =>
        match v with
        | PModel cls kw =>
            match lookup_type S cls with
            | Some (DInput fs) =>
                option_map JObj (dump_fields (fun t' => dump_field n' S snake t' true) snake fs fs kw)
            | _ => None
            end
        | PList l => option_map JArr (map_opt (convert_value n' S snake) l)
        | _ => to_json v
        end
    end.

  (* _convert_dict_to_json_serializable: UNSET dropped at top level only *)
  Fixpoint convert_dict (n : nat) (S : schema) (snake : bool) (d : list (string * pyval))
    : option (list (string * json)) :=
    match d with
    | [] => Some []
    | (k, PUnset) :: r => convert_dict n S snake r
    | (k, v) :: r => match convert_value n S snake v, convert_dict n S snake r with
                     | Some j, Some o => Some ((k, j) :: o) | _, _ => None end
    end.

  (* ---- calling the generated method ---- *)
  Inductive outcome :=
  | Sent (variables : list (string * json))
  | GenError                   (* the generator refuses the operation (ParsingError) *)
  | PySyntaxError              (* client.py does not import: invalid / duplicate parameter names *)
  | PyMissingArg               (* TypeError: missing required positional argument *)
  | PyNotCallable              (* a parameter shadows gql / the serialize function *)
  | PyNotSerializable.         (* json.dumps / to_jsonable_python fails *)

  Definition py_ok_name (s : string) : bool :=
    py_identifier (s2l s) && negb (iskeyword (s2l s)) &&
    negb (String.eqb s "self") && negb (String.eqb s "kwargs").

  Definition sig_ok (g : generated) : bool :=
    forallb (fun p => py_ok_name (p_name p)) (g_params g) && nodup_str (map p_name (g_params g)).

  (* bind keyword arguments; None = missing required argument *)
  Fixpoint bind (ps : list param) (kwargs : list (string * pyval)) : option (list (string * pyval)) :=
    match ps with
    | [] => Some []
    | p :: r =>
        match assoc (p_name p) kwargs with
        | Some v => option_map (cons (p_name p, v)) (bind r kwargs)
        | None => if p_required p then None else option_map (cons (p_name p, PUnset)) (bind r kwargs)
        end
    end.

  Definition is_none (v : pyval) : bool := match v with PNone => true | _ => false end.
  Definition is_unset (v : pyval) : bool := match v with PUnset => true | _ => false end.

  (* `x is UNSET` inside the method: UNSET is the module-level sentinel unless a PARAMETER is called UNSET,
     which shadows it (then the test is an identity test against that argument) *)
  Definition is_unset_test (env : list (string * pyval)) (x : string) (v : pyval) : bool :=
    match assoc "UNSET" env with
    | None => is_unset v
    | Some u => String.eqb x "UNSET" || (is_unset v && is_unset u)
    end.

  (* evaluate an expression of the variables dict in the method's environment: value and the log of
     serialize calls (argument of each call, in evaluation order).  None = Python raises (a called name is
     shadowed by a parameter / iterating a non-list). *)
  Fixpoint eval_se (env : list (string * pyval)) (e : sexpr) : option (pyval * list (string * pyval)) :=
    match e with
    | EVar x => option_map (fun v => (v, [])) (assoc x env)
    | ECall f x =>
        match assoc f env with
        | Some _ => None
        | None => option_map (fun v => (ser f v, [(f, v)])) (assoc x env)
        end
    | EGuard top x body =>
        match assoc x env with
        | None => None
        | Some v => if is_none v || (top && is_unset_test env x v) then Some (v, []) else eval_se env body
        end
    | ENotNone x body =>
        match assoc x env with
        | None => None
        | Some v => if is_none v then Some (PNone, []) else eval_se env body
        end
    | EComp item elt x =>
        match assoc x env with
        | Some (PList l) =>
            option_map (fun rs => (PList (map fst rs), List.concat (map snd rs)))
                       (map_opt (fun a => eval_se ((item, a) :: env) elt) l)
        | _ => None
        end
    end.

  Fixpoint eval_dict (env : list (string * pyval)) (d : list (string * dictval))
    : option (list (string * pyval)) :=
    match d with
    | [] => Some []
    | (k, dv) :: r =>
        match eval_se env dv, eval_dict env r with
        | Some (v, _), Some o => Some ((k, v) :: o) | _, _ => None end
    end.

  (* meaning of the custom-operation expression: as ser_arg, the outermost level ([d0]) always guarded *)
  Fixpoint cu_arg (f : string) (t : gtype) (nl d0 : bool) (v : pyval)
    : option (pyval * list (string * pyval)) :=
    match t with
    | TNonNull t' => cu_arg f t' false d0 v
    | TNamed _ => if (nl || d0) && is_none v then Some (PNone, []) else Some (ser f v, [(f, v)])
    | TList t' =>
        if (nl || d0) && is_none v then Some (PNone, []) else
        match v with
        | PList l => option_map (fun rs => (PList (map fst rs), List.concat (map snd rs)))
                                (map_opt (cu_arg f t' true false) l)
        | _ => None
        end
    end.

  (* what the expression is meant to compute: serialize applied to every non-None occurrence of the scalar
     in an argument of type t (and the log of those calls); None / UNSET (argument itself) untouched *)
  Fixpoint ser_arg (f : string) (t : gtype) (nl top : bool) (v : pyval)
    : option (pyval * list (string * pyval)) :=
    match t with
    | TNonNull t' => ser_arg f t' false top v
    | TNamed _ =>
        if nl && (is_none v || (top && is_unset v)) then Some (v, []) else Some (ser f v, [(f, v)])
    | TList t' =>
        if nl && (is_none v || (top && is_unset v)) then Some (v, []) else
        match v with
        | PList l => option_map (fun rs => (PList (map fst rs), List.concat (map snd rs)))
                                (map_opt (ser_arg f t' true false) l)
        | _ => None
        end
    end.

  Definition query_text : pyval := PStr "<operation string>".

  Definition call_method (n : nat) (S : schema) (snake : bool) (nm : string -> string) (vs : list vardef)
             (kwargs : list (string * pyval)) : outcome :=
    match generate S nm vs with
    | None => GenError
    | Some g =>
        if negb (sig_ok g) then PySyntaxError else
        match bind (g_params g) kwargs with
        | None => PyMissingArg
        | Some env0 =>
            match assoc "gql" env0 with
            | Some _ => PyNotCallable
            | None =>
                let qv := hd "query" (variable_names S g) in
                let env1 := (qv, query_text) :: env0 in      (* query = gql(...): may overwrite a parameter *)
                match eval_dict env1 (g_dict g) with
                | None => PyNotCallable
                | Some d => match convert_dict n S snake d with
                            | Some kv => Sent kv
                            | None => PyNotSerializable
                            end
                end
            end
        end
    end.

  (* the same generated method body for a SUBSCRIPTION: the variables dict goes to execute_ws ->
     _send_subscribe, which puts `_convert_dict_to_json_serializable(variables)` into the graphql-transport-ws
     subscribe payload only `if variables:` (a payload without the key counts as no variables) *)
  Definition call_subscribe (n : nat) (S : schema) (snake : bool) (nm : string -> string) (vs : list vardef)
             (kwargs : list (string * pyval)) : outcome :=
    match generate S nm vs with
    | None => GenError
    | Some g =>
        if negb (sig_ok g) then PySyntaxError else
        match bind (g_params g) kwargs with
        | None => PyMissingArg
        | Some env0 =>
            match assoc "gql" env0 with
            | Some _ => PyNotCallable
            | None =>
                let qv := hd "query" (variable_names S g) in
                let env1 := (qv, query_text) :: env0 in
                match eval_dict env1 (g_dict g) with
                | None => PyNotCallable
                | Some [] => Sent []
                | Some d => match convert_dict n S snake d with
                            | Some kv => Sent kv
                            | None => PyNotSerializable
                            end
                end
            end
        end
    end.

  (* ---- schema-valid Python values (what the caller may pass for a position of type t) ---- *)
  Definition typed_builtin (b : builtin) (v : pyval) : bool :=
    match b, v with
    | BInt, PInt z => int32 z
    | BFloat, PFloat _ => true
    | BString, PStr _ => true
    | BBoolean, PBool _ => true
    | BID, PStr _ => true
    | _, _ => false
    end.

  Definition not_jnull (j : json) : bool := match j with JNull => false | _ => true end.

  Definition typed_fields (ty : gtype -> pyval -> bool) (snake : bool) (fs : list ifield)
             (kw : list (string * pyval)) : bool :=
    forallb (fun p => mem_str (fst p) (map (fpy snake fs) fs)) kw &&
    nodup_str (map fst kw) &&
    forallb (fun f => match assoc (fpy snake fs f) kw with
                      | Some v => ty (if_type f) v
                      | None => match if_default f with
                                | Some _ => true
                                | None => negb (is_nonnull (if_type f)) end
                      end) fs.

  Fixpoint typed (n : nat) (S : schema) (snake : bool) (t : gtype) (v : pyval) : bool :=
    match n with
    | O => false
    | Datatypes.S n' =>
        match t with
        | TNonNull t' =>
            match v with PNone => false | _ => negb (is_nonnull t') && typed n' S snake t' v end
        | TList t' =>
            match v with
            | PNone => true
            | PList l => forallb (typed n' S snake t') l
            | _ => false
            end
        | TNamed nm =>
            match v with
            | PNone => true
            | _ =>
                match lookup_type S nm with
                | Some (DBuiltin b) => typed_builtin b v
                | Some (DEnum vals) =>
                    match v with PEnum ty s => String.eqb ty nm && mem_str s vals | _ => false end
                | Some (DCustom _) => match v with PCustom j => not_jnull j | _ => false end
                | Some (DInput fs) =>
                    match v with
                    | PModel cls kw => String.eqb cls nm && typed_fields (typed n' S snake) snake fs kw
                    | _ => false
                    end
                | None => false
                end
            end
        end
    end.

  (* ---- the GraphQL value the caller means, by ORIGINAL GraphQL names ---- *)
  Definition intend_builtin (b : builtin) (v : pyval) : option cvalue :=
    match b, v with
    | BInt, PInt z => Some (CInt z)
    | BFloat, PFloat s => Some (CFloat s)
    | BString, PStr s => Some (CStr s)
    | BBoolean, PBool x => Some (CBool x)
    | BID, PStr s => Some (CStr s)
    | _, _ => None
    end.

  Fixpoint intend_fields (it : gtype -> pyval -> option cvalue) (snake : bool) (all fs : list ifield)
           (kw : list (string * pyval)) : option (list (string * cvalue)) :=
    match fs with
    | [] => Some []
    | f :: r =>
        match assoc (fpy snake all f) kw with
        | Some v => match it (if_type f) v, intend_fields it snake all r kw with
                    | Some c, Some cs => Some ((if_name f, c) :: cs) | _, _ => None end
        | None => match if_default f with
                  | Some d => option_map (cons (if_name f, d)) (intend_fields it snake all r kw)
                  | None => intend_fields it snake all r kw
                  end
        end
    end.

  Fixpoint intend (n : nat) (S : schema) (snake : bool) (t : gtype) (v : pyval) : option cvalue :=
    match n with
    | O => None
    | Datatypes.S n' =>
        match t with
        | TNonNull t' => match v with PNone => None | _ => intend n' S snake t' v end
        | TList t' =>
            match v with
            | PNone => Some CNull
            | PList l => option_map CList (map_opt (intend n' S snake t') l)
            | _ => None
            end
        | TNamed nm =>
            match v with
            | PNone => Some CNull
            | _ =>
                match lookup_type S nm with
                | Some (DBuiltin b) => intend_builtin b v
                | Some (DEnum _) => match v with PEnum _ s => Some (CEnum s) | _ => None end
                | Some (DCustom c) => option_map CCustom (dump_custom c v)   (* = serialize(value) *)
                | Some (DInput fs) =>
                    match v with
                    | PModel _ kw => option_map CObj (intend_fields (intend n' S snake) snake fs fs kw)
                    | _ => None
                    end
                | None => None
                end
            end
        end
    end.

  Fixpoint intended_vars (n : nat) (S : schema) (snake : bool) (nm : string -> string) (vs : list vardef)
           (kwargs : list (string * pyval)) : option (list (string * cvalue)) :=
    match vs with
    | [] => Some []
    | v :: r =>
        match assoc (nm (v_name v)) kwargs with
        | Some a => match intend n S snake (v_type v) a, intended_vars n S snake nm r kwargs with
                    | Some c, Some cs => Some ((v_name v, c) :: cs) | _, _ => None end
        | None => match v_default v with
                  | Some d => option_map (cons (v_name v, d)) (intended_vars n S snake nm r kwargs)
                  | None => intended_vars n S snake nm r kwargs
                  end
        end
    end.

  (* every passed argument is typed; every required parameter is passed *)
  Definition typed_call (n : nat) (S : schema) (snake : bool) (nm : string -> string) (vs : list vardef)
             (kwargs : list (string * pyval)) : bool :=
    nodup_str (map fst kwargs) &&
    forallb (fun p => mem_str (fst p) (map (fun v => nm (v_name v)) vs)) kwargs &&
    forallb (fun v => match assoc (nm (v_name v)) kwargs with
                      | Some a => typed n S snake (v_type v) a
                      | None => negb (is_nonnull (v_type v))
                      end) vs.

  (* ---- validity of the schema (no defect class): field names of an input type and type names are distinct.
     (Until /repo bec4417 / a4347c6 this also demanded distinct MANGLED names - finding F18; the suffix loop now makes
     them distinct, Proofs/FreshP.v fname_nodup.) ---- *)
  Definition inputs_ok (S : schema) (snake : bool) : bool :=
    forallb (fun d => match snd d with
                      | DInput fs => nodup_str (map if_name fs)
                      | _ => true end) S &&
    nodup_str (map fst S).

  (* F21 shape: a non-null list whose items are nullable.  Fixed for input fields by /repo 1ef155d; the
     predicate is kept because method SIGNATURES (arguments.py _parse_type_node) still have it (type hint) *)
  Fixpoint ok_ty (nl : bool) (t : gtype) : bool :=
    match t with
    | TNamed _ => true
    | TList t' => (nl || is_nonnull t') && ok_ty nl t'
    | TNonNull t' => ok_ty false t'
    end.

  Definition g_f21 (S : schema) : bool :=
    forallb (fun d => match snd d with
                      | DInput fs => forallb (fun f => ok_ty true (if_type f)) fs
                      | _ => true end) S.

  (* the serialize function used for a variable, if its named type is a scalar configured with one
     (finding F10 - serialize on the whole argument - was fixed by /repo d163d56; its guard is gone) *)
  Definition var_ser (S : schema) (t : gtype) : option string :=
    match lookup_type S (named_of t) with Some (DCustom c) => cfg_ser c | _ => None end.

  Definition is_item_name (f : string) : bool := String.prefix "_item" f.

  Fixpoint strip_us (s : string) : string :=
    match s with
    | String c r => if Ascii.eqb c "_"%char then strip_us r else s
    | EmptyString => s
    end.
  (* the name the method's `query` local can take: underscores, then query *)
  Definition query_like (f : string) : bool := String.eqb (strip_us f) "query".

  (* SCOPE of the model (no theorem needs it any more): a serialize FUNCTION that is itself called UNSET or gql would
     replace the imported sentinel / be replaced by the module's own gql in client.py - module-level name clashes the
     model does not represent; the harness never configures such names *)
  Definition ser_name_ok (S : schema) (v : vardef) : bool :=
    match var_ser S (v_type v) with
    | Some f => negb (String.eqb f "UNSET") && negb (String.eqb f "gql")
    | None => true
    end.

  (* what the method body needs from the parameter names (established for the generator's naming in ArgsP /
     ConvertP: naming_wf) *)
  Definition names_wf (S : schema) (nm : string -> string) (vs : list vardef) : bool :=
    let py := map (fun v => nm (v_name v)) vs in
    forallb py_ok_name py && nodup_str py &&
    negb (mem_str "gql" py) && negb (mem_str "UNSET" py) &&
    forallb (fun v => match var_ser S (v_type v) with Some f => negb (mem_str f py) | None => true end) vs.

  (* (no parameter-name guard remains after /repo 7f3b78b, e1c98d1, 6bef770, 70630f0; names_ok = the scope above) *)
  Definition ident_ok (s : string) : bool := py_identifier (s2l s) && negb (iskeyword (s2l s)).

  Definition names_ok (S : schema) (vs : list vardef) : bool := forallb (ser_name_ok S) vs.
End WithSerialize.

(* instrumented serialize used by the harness and by the witnesses:
   def ser(v): LOG.append(v); return ["S", v] *)
Definition ser_inst (f : string) (v : pyval) : pyval :=
  match v with
  | PCustom j => PCustom (JArr [JStr f; j])
  | _ => PList [PStr f; v]
  end.

(* ---- sexp codecs ---- *)
Fixpoint pyval_of_sexp (e : sexp) : option pyval :=
  match e with
  | A "none" => Some PNone
  | A "unset" => Some PUnset
  | L [A "i"; z] => option_map PInt (dZ z)
  | L [A "f"; A s] => Some (PFloat s)
  | L [A "s"; A s] => Some (PStr s)
  | L [A "b"; b] => option_map PBool (dB b)
  | L [A "e"; A t; A v] => Some (PEnum t v)
  | L [A "c"; j] => option_map PCustom (json_of_sexp j)
  | L (A "l" :: l) =>
      option_map PList
      ((fix go (l : list sexp) : option (list pyval) :=
         match l with
         | [] => Some []
         | x :: r => match pyval_of_sexp x, go r with
                     | Some v, Some vs => Some (v :: vs) | _, _ => None end
         end) l)
  | L (A "m" :: A cls :: l) =>
      option_map (PModel cls)
      ((fix go (l : list sexp) : option (list (string * pyval)) :=
         match l with
         | [] => Some []
         | L [A k; x] :: r => match pyval_of_sexp x, go r with
                              | Some v, Some vs => Some ((k, v) :: vs) | _, _ => None end
         | _ => None
         end) l)
  | _ => None
  end.

Definition kwargs_of_sexp (e : sexp) : option (list (string * pyval)) :=
  dList (fun x => match x with
                  | L [A k; v] => option_map (pair k) (pyval_of_sexp v)
                  | _ => None end) e.

Definition sOutcome (o : outcome) : sexp :=
  match o with
  | Sent kv => L [A "sent"; json_to_sexp (JObj kv)]
  | GenError => A "gen-error"
  | PySyntaxError => A "syntax-error"
  | PyMissingArg => A "missing-arg"
  | PyNotCallable => A "not-callable"
  | PyNotSerializable => A "not-serializable"
  end.

Definition FUEL : nat := 64.

Definition sOptB (o : option (list (string * cvalue))) : sexp := sOpt sBindings o.

Definition run_args (e : sexp) : sexp :=
  match e with
  | L [A "gen"; sn; A rc; sch; vs] =>
      match dB sn, schema_of_sexp sch, dList vardef_of_sexp vs with
      | Some snake, Some Sc, Some vds =>
          match generate Sc (naming Sc snake [rc] vds) vds with
          | Some g => L [A "ok"; sGenerated Sc g; sB (sig_ok g); sB (names_ok Sc vds);
                         sB (inputs_ok Sc snake); sB (g_f21 Sc); sB (forallb (ser_name_ok Sc) vds)]
          | None => A "gen-error" end
      | _, _, _ => sErr "gen: decode" end
  | L [A "call"; sn; A rc; sch; vs; kw] =>
      match dB sn, schema_of_sexp sch, dList vardef_of_sexp vs, kwargs_of_sexp kw with
      | Some snake, Some Sc, Some vds, Some kwargs =>
          L [sOutcome (call_method ser_inst FUEL Sc snake (naming Sc snake [rc] vds) vds kwargs);
             sOutcome (call_subscribe ser_inst FUEL Sc snake (naming Sc snake [rc] vds) vds kwargs);
             sB (typed_call FUEL Sc snake (naming Sc snake [rc] vds) vds kwargs);
             sOptB (intended_vars ser_inst FUEL Sc snake (naming Sc snake [rc] vds) vds kwargs);
             sB (forallb (fun p => constructed FUEL Sc snake (snd p)) kwargs)]
      | _, _, _, _ => sErr "call: decode" end
  | L [A "coerce"; sch; vs; prov] =>
      match schema_of_sexp sch, dList vardef_of_sexp vs, dObjKV prov with
      | Some Sc, Some vds, Some kv => sOptB (coerce_vars FUEL Sc vds kv)
      | _, _, _ => sErr "coerce: decode" end
  | L [A "tables"] =>
      (* constants of the model, compared with /repo's source on every run (K2) *)
      L [L (map (fun b => L [A (fst b); A (input_scalar_py (snd b))])
               [("Int", BInt); ("Float", BFloat); ("String", BString); ("Boolean", BBoolean); ("ID", BID)]);
         L (map A (reserved_names []));
         A (item_name 7);
         L (map A (variable_names [] {| g_params := []; g_dict := [] |}));
         A (ann_str (AUnionUnset (AOptional (AList (AName "T")))))]
  | L [A "split"; A s] =>
      L [sOpt A (fst (split_dotted s)); A (snd (split_dotted s))]
  | _ => sErr "args: bad command"
  end.
