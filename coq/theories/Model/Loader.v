(* C19 — ariadne_codegen/schema.py: load_graphql_files_from_path, walk_graphql_files,
   read_graphql_file, get_graphql_schema_from_path.   Definitions only.

   A directory tree is given flat: one [entry] per file or directory below the root, in the
   order [Path.glob("**/*")] happens to yield them (unspecified: the theorems quantify over
   every order).  What graphql-core's [parse] says about a file's text is carried by the entry
   ([e_defs = None]: GraphQLSyntaxError), see the trusted base in notes/C19.md. *)
From Coq Require Import List String Ascii ZArith Bool Arith.
From AC Require Import Base.Sexp Base.Strs Model.SchemaSrc.
Import ListNotations.
Local Open Scope string_scope.

Definition path := list string.        (* components below the root, outermost first *)

Record entry := {
  e_path : path;
  e_isdir : bool;
  e_text : string;                      (* file content *)
  e_defs : option (list defn) }.        (* parse(e_text).definitions; None = syntax error *)

(* ---- pathlib.PurePath.suffix (Python 3.12): name[i:] for i = name.rfind(".") when
        0 < i < len(name) - 1, else "" ---- *)
Definition is_dot (c : ascii) : bool := Ascii.eqb c "."%char.

(* characters after the last dot, and what precedes that dot (None: no dot) *)
Fixpoint split_last_dot (l : chars) : option (chars * chars) :=
  match l with
  | [] => None
  | c :: r =>
      match split_last_dot r with
      | Some (pre, suf) => Some (c :: pre, suf)
      | None => if is_dot c then Some ([], r) else None
      end
  end.

Definition suffix_chars (name : chars) : chars :=
  match split_last_dot name with
  | Some (pre, suf) =>
      match pre, suf with
      | [], _ => []              (* i = 0: dot-file *)
      | _, [] => []              (* i = len - 1: trailing dot *)
      | _, _ => "."%char :: suf
      end
  | None => []
  end.

Definition suffix (name : string) : string := l2s (suffix_chars (s2l name)).

Definition extensions : list string := [".graphql"; ".graphqls"; ".gql"].

Definition mem_str (x : string) (l : list string) : bool := existsb (String.eqb x) l.

Definition last_component (p : path) : string := last p "".

(* walk_graphql_files: `if file_.suffix in extensions and file_.is_file()` (since 6530558 a
   directory named like a schema file is no longer yielded) *)
Definition selected (e : entry) : bool :=
  negb (e_isdir e) && mem_str (suffix (last_component (e_path e))) extensions.

(* ---- sorted(paths): PurePath.__lt__ compares the lists of components, each as a Python
        str (code points = UTF-8 byte order) ---- *)
Fixpoint lex_leb {X} (leb eqb : X -> X -> bool) (a b : list X) : bool :=
  match a, b with
  | [], _ => true
  | _ :: _, [] => false
  | x :: a', y :: b' => if eqb x y then lex_leb leb eqb a' b' else leb x y
  end.

Definition ascii_leb (x y : ascii) : bool := Nat.leb (nat_of_ascii x) (nat_of_ascii y).
Definition str_leb (s t : string) : bool := lex_leb ascii_leb Ascii.eqb (s2l s) (s2l t).
Definition path_leb (p q : path) : bool := lex_leb str_leb String.eqb p q.

Fixpoint insert_by {X} (leb : X -> X -> bool) (x : X) (l : list X) : list X :=
  match l with
  | [] => [x]
  | y :: r => if leb x y then x :: l else y :: insert_by leb x r
  end.

Definition sort_by {X} (leb : X -> X -> bool) (l : list X) : list X :=
  fold_right (insert_by leb) [] l.

Definition entry_leb (a b : entry) : bool := path_leb (e_path a) (e_path b).

Definition walk_sorted (tree : list entry) : list entry :=
  sort_by entry_leb (filter selected tree).

(* ---- read_graphql_file ---- *)
Inductive lerr :=
| EIsDir (p : path)           (* open() on a directory: IsADirectoryError escapes *)
| ESyntax (p : path).         (* InvalidGraphqlSyntax naming the file *)

Definition read_file (e : entry) : lerr + string :=
  if e_isdir e then inl (EIsDir (e_path e))
  else match e_defs e with
       | None => inl (ESyntax (e_path e))
       | Some _ => inr (e_text e)
       end.

(* list comprehension: files are read in sorted order, the first failure escapes *)
Fixpoint read_all (l : list entry) : lerr + list string :=
  match l with
  | [] => inr []
  | e :: r =>
      match read_file e with
      | inl x => inl x
      | inr t => match read_all r with inl x => inl x | inr ts => inr (t :: ts) end
      end
  end.

Fixpoint join_nl (l : list string) : string :=
  match l with
  | [] => ""
  | [t] => t
  | t :: r => t ++ String "010"%char (join_nl r)
  end.

(* load_graphql_files_from_path for a directory *)
Definition load_dir (tree : list entry) : lerr + string :=
  match read_all (walk_sorted tree) with
  | inl x => inl x
  | inr ts => inr (join_nl ts)
  end.

(* ... and for a single file: no extension filter at all *)
Definition load_file (e : entry) : lerr + string := read_file e.

(* ---- the definitions handed to build_ast_schema.  parse(join "\n" texts) is the
        concatenation of the per-file definition lists (graphql-core, tied by K2) ---- *)
Definition defs_of (e : entry) : list defn := match e_defs e with Some ds => ds | None => [] end.

Definition loaded_defs (tree : list entry) : list defn :=
  flat_map defs_of (walk_sorted tree).

Definition readable (e : entry) : bool :=
  negb (e_isdir e) && match e_defs e with Some _ => true | None => false end.
Definition all_readable (tree : list entry) : bool :=
  forallb readable (filter selected tree).

(* "every FILE of the tree that carries one of the extensions is a parsable document" *)
Definition files_readable (tree : list entry) : bool :=
  forallb (fun e => e_isdir e || negb (selected e) || readable e) tree.

(* ---- build_ast_schema(assume_valid=True), as far as C19 needs it: the map from type name to
        body, extensions appended in document order, a later duplicate definition replacing
        the earlier one in place (dict assignment) ---- *)
Definition ext_members (n : string) (ds : list defn) : list member :=
  flat_map (fun d => if d_ext d && String.eqb (d_name d) n then b_members (d_body d) else []) ds.

Fixpoint assoc_set {V} (k : string) (v : V) (m : list (string * V)) : list (string * V) :=
  match m with
  | [] => [(k, v)]
  | (k', v') :: r => if String.eqb k k' then (k, v) :: r else (k', v') :: assoc_set k v r
  end.

Fixpoint assoc_get {V} (k : string) (m : list (string * V)) : option V :=
  match m with
  | [] => None
  | (k', v) :: r => if String.eqb k k' then Some v else assoc_get k r
  end.

Definition base_map (ds : list defn) : list (string * tbody) :=
  fold_left (fun m d => if d_ext d then m else assoc_set (d_name d) (d_body d) m) ds [].

Definition extend_body (ds : list defn) (nb : string * tbody) : string * tbody :=
  (fst nb, {| b_kind := b_kind (snd nb); b_header := b_header (snd nb);
              b_members := b_members (snd nb) ++ ext_members (fst nb) ds |}).

Definition type_map (ds : list defn) : list (string * tbody) := map (extend_body ds) (base_map ds).

Definition has_ext (ds : list defn) : bool := existsb d_ext ds.

(* ---------------- sexp interface ---------------- *)
Definition path_to_sexp (p : path) : sexp := L (map A p).

(* ((comp ...) isdir text none|(some (defs...))) *)
Definition entry_of_sexp (e : sexp) : option entry :=
  match e with
  | L [p; d; A t; ds] =>
      match dList dStr p, dB d, dOpt (dList defn_of_sexp) ds with
      | Some p, Some d, Some ds => Some {| e_path := p; e_isdir := d; e_text := t; e_defs := ds |}
      | _, _, _ => None
      end
  | _ => None
  end.

Definition lres_to_sexp (r : lerr + string) : sexp :=
  match r with
  | inl (EIsDir p) => L [A "err"; A "isdir"; path_to_sexp p]
  | inl (ESyntax p) => L [A "err"; A "syntax"; path_to_sexp p]
  | inr t => L [A "ok"; A t]
  end.

Definition run_loader (e : sexp) : sexp :=
  match e with
  | L [A "constants"] => L [L (map A extensions); A (join_nl [""; ""])]
  | L [A "suffix"; A s] => A (suffix s)
  | L [A "path-leb"; p; q] =>
      match dList dStr p, dList dStr q with
      | Some p, Some q => sB (path_leb p q)
      | _, _ => sErr "path" end
  | L [A "walk"; es] =>
      match dList entry_of_sexp es with
      | Some t => L (map (fun x => path_to_sexp (e_path x)) (walk_sorted t))
      | None => sErr "entries" end
  | L [A "load-dir"; es] =>
      match dList entry_of_sexp es with
      | Some t => L [lres_to_sexp (load_dir t);
                     L (map (fun d => L [sB (d_ext d); A (d_name d)]) (loaded_defs t))]
      | None => sErr "entries" end
  | L [A "load-file"; x] =>
      match entry_of_sexp x with
      | Some t => lres_to_sexp (load_file t)
      | None => sErr "entry" end
  | L [A "type-map"; ds] =>
      match dList defn_of_sexp ds with
      | Some ds => L (map (fun nb => body_to_sexp (fst nb) (snd nb)) (type_map ds))
      | None => sErr "defs" end
  | L [A "tree-type-map"; es] =>
      match dList entry_of_sexp es with
      | Some t => L (map (fun nb => body_to_sexp (fst nb) (snd nb)) (type_map (loaded_defs t)))
      | None => sErr "entries" end
  | _ => sErr "loader: bad command"
  end.
