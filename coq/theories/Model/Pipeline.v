(* Model of ariadne_codegen/main.py (client, graphql_schema, the click entry point) as a sequence of
   phases over an effect log (C17).  Executable definitions only.
   What graphql-core, the plugin importer and the HTTP layer answer is the oracle record [world]; the
   phases, their order, the exception each failure is turned into and the position of every
   mkdir/write are the code's.  In particular the validity phase is `assert_valid_schema` on a schema
   built with assume_valid=True, i.e. the identity: [w_schema_errors] (what graphql-core WOULD report)
   is never consulted by the pipeline. *)
From Coq Require Import List String Ascii ZArith Bool.
From AC Require Model.Introspect.
From AC Require Import Base.Sexp Base.Json Base.Strs Model.Names Model.Settings.
Import ListNotations.
Local Open Scope string_scope.

(* which schema object a phase looks at: as loaded, with @mixin added, after the plugins' process_schema *)
Inductive sstage := SLoaded | SMixin | SProcessed.
Definition is_processed (s : sstage) : bool := match s with SProcessed => true | _ => false end.

Inductive effect :=
| EValidateOps (s : sstage)      (* graphql.validate(schema at stage s, operations) *)
| EGenerate (s : sstage)         (* get_package_generator(schema at stage s, ...) *)
| EReadConfig (p : string)
| ERead (p : string)
| EHttp (url : string)
| EStdout
| EMkdir (p : string)
| EWrite (p : string).

Definition is_mutation (f : effect) : bool :=
  match f with EMkdir _ | EWrite _ => true | _ => false end.
Definition no_writes (log : list effect) : bool := forallb (fun f => negb (is_mutation f)) log.

Inductive phase := PhConfig | PhSettings | PhSchema | PhPlugins | PhValidity | PhQueries | PhOperations
                 | PhGenerate.
Definition phase_name (p : phase) : string :=
  match p with PhConfig => "config" | PhSettings => "settings" | PhSchema => "schema"
  | PhPlugins => "plugins" | PhValidity => "validity" | PhQueries => "queries"
  | PhOperations => "operations" | PhGenerate => "generate" end.

Inductive outcome := Done | Failed (ph : phase) (x : err) | IllCfg.

(* ---------- oracle ---------- *)
Record gfile := { gf_path : string; gf_ok : bool }.          (* graphql.parse(content) succeeds *)
Inductive build_res := BuildOk | BuildRaises (cls msg : string).
Record opinfo := { op_name : option string;                  (* None: anonymous operation *)
                   op_err : option err }.                    (* what ResultTypesGenerator & co raise *)
Record world := {
  w_schema_files : list gfile;         (* files read for schema_path, in the loader's (sorted) order *)
  w_schema_build : build_res;          (* build_ast_schema(parse(joined), assume_valid=True) *)
  (* the remote route (schema_path empty): what httpx makes of the URL, what the server answers, and
     graphql-core's verdict on the data below build_client_schema's first gate; the decision chain
     itself is Model/Introspect.v (C19), reused here *)
  w_url : Introspect.urlclass;
  w_resp : Introspect.response;
  w_deep : option string;
  w_schema_errors : list string;       (* reference verdict: validate_sdl + validate_schema messages *)
  w_plugin_err : option string;        (* get_plugins_types raises PluginImportError(msg) *)
  w_query_files : list gfile;
  w_op_errors : list (string * string);(* (rule class, message) under ALL specified_rules, against the schema
                                          AFTER add_mixin_directive_to_schema + plugins' process_schema *)
  w_op_errors_raw : list (string * string);   (* the same against the schema before process_schema *)
  w_ops : list opinfo;                 (* operation definitions of the queries document, in order *)
  w_fragments : bool;                  (* some fragment definition ends up in the fragments module *)
  w_query_type : bool;                 (* schema.query_type is set (custom_queries.py exists) *)
  w_mutation_type : bool               (* schema.mutation_type is set (custom_mutations.py exists) *)
}.

(* ---------- loading (schema.py) ---------- *)
Definition msg_syntax (p : string) := "Invalid graphql syntax in file " ++ p.

(* read_graphql_file over the sorted files: every file is read, the first that does not parse raises *)
Fixpoint load_files (fs : list gfile) (log : list effect) : list effect * option err :=
  match fs with
  | [] => (log, None)
  | f :: r =>
      let log' := (log ++ [ERead (gf_path f)])%list in
      if gf_ok f then load_files r log'
      else (log', Some (mkerr InvalidGraphqlSyntax (msg_syntax (gf_path f))))
  end.

(* load_graphql_files_from_path + parse(joined): an empty join does not parse (bare GraphQLSyntaxError) *)
Definition load_and_parse (fs : list gfile) (log : list effect) : list effect * option err :=
  match load_files fs log with
  | (log', Some x) => (log', Some x)
  | (log', None) =>
      match fs with
      | [] => (log', Some (mkerr (Other "GraphQLSyntaxError") "Syntax Error: Unexpected <EOF>."))
      | _ => (log', None)
      end
  end.

(* get_graphql_schema_from_url / introspect_remote_schema: every refusal is IntrospectionError *)
Definition ierr_msg (url : string) (ie : Introspect.ierr) : string :=
  match ie with
  | Introspect.EInvalidUrl => "Invalid remote schema url: " ++ url
  | Introspect.EStatus z => "Failure of remote schema introspection. HTTP status code: " ++ z_to_string z
  | Introspect.ENotJson => "Introspection result is not a valid json."
  | Introspect.EFormat => "Invalid introspection result format."
  | Introspect.EErrors _ => "Introspection errors: "
  | Introspect.EDataKey => "Invalid data key in introspection result."
  | Introspect.EBuild => "Invalid or incomplete introspection result: "
  end.

Definition load_remote (b : bsettings) (w : world) (log : list effect) : list effect * option err :=
  (* a request leaves the process only when httpx accepts the URL *)
  let log' := match w_url w with Introspect.UOk => (log ++ [EHttp (s_url b)])%list | _ => log end in
  match Introspect.schema_from_url (w_url w) (w_resp w) (w_deep w) with
  | Introspect.SBuilt _ => (log', None)
  | Introspect.SError ie => (log', Some (mkerr IntrospectionError (ierr_msg (s_url b) ie)))
  end.

Definition load_schema (b : bsettings) (w : world) (log : list effect) : list effect * option err :=
  if negb (String.eqb (s_schema_path b) "") then
    match load_and_parse (w_schema_files w) log with
    | (log', Some x) => (log', Some x)
    | (log', None) =>
        match w_schema_build w with
        | BuildOk => (log', None)
        | BuildRaises c m => (log', Some (mkerr (Other c) m))
        end
    end
  else load_remote b w log.

Definition load_plugins (w : world) : option err :=
  match w_plugin_err w with Some m => Some (mkerr PluginImportError m) | None => None end.

(* assert_valid_schema(schema) with schema._validation_errors == [] : never raises *)
Definition assert_valid_schema (w : world) : option err := None.

Definition op_errors_at (w : world) (s : sstage) : list (string * string) :=
  match s with SProcessed => w_op_errors w | _ => w_op_errors_raw w end.
Definition relevant_op_errors_at (w : world) (s : sstage) : list string :=
  map snd (filter (fun p => negb (String.eqb (fst p) "NoUnusedFragmentsRule")) (op_errors_at w s)).
Definition relevant_op_errors (w : world) : list string := relevant_op_errors_at w SProcessed.

Fixpoint join (sep : string) (l : list string) : string :=
  match l with [] => "" | [x] => x | x :: r => x ++ sep ++ join sep r end.
Definition nl2 : string := String (ascii_of_nat 10) (String (ascii_of_nat 10) EmptyString).

Definition load_queries (w : world) (st : sstage) (log : list effect) : list effect * option err :=
  match load_and_parse (w_query_files w) log with
  | (log', Some x) => (log', Some x)
  | (log', None) =>
      let log'' := (log' ++ [EValidateOps st])%list in
      match relevant_op_errors_at w st with
      | [] => (log'', None)
      | msgs => (log'', Some (mkerr InvalidOperationForSchema (join nl2 msgs)))
      end
  end.

(* main.client: schema = add_mixin_directive_to_schema(schema); schema = plugin_manager.process_schema(schema)
   — both BEFORE get_graphql_queries; the same variable is then handed to get_package_generator *)
Definition stage_for_validation : sstage := SProcessed.
Definition stage_for_generation : sstage := SProcessed.

(* PackageGenerator.add_operation, per operation in order *)
Definition snake_flags : pflags := {| f_snake := true; f_trim := false; f_reserved := false |}.
Definition module_name (n : string) : string := l2s (process_name snake_flags (s2l n)).
Fixpoint add_operations (ops : list opinfo) (files : list string) : res (list string) :=
  match ops with
  | [] => Ok files
  | o :: r =>
      match op_name o with
      | None => Err (mkerr ParsingError "Query without name.")
      | Some n =>
          let f := module_name n ++ ".py" in
          (* `if file_name in self._result_types_files: raise ParsingError` — before the result types
             of the operation are generated, so before anything of it can fail or be written *)
          if existsb (String.eqb f) files
          then Err (mkerr ParsingError ("Duplicated file names: " ++ f))
          else match op_err o with
               | Some x => Err x
               | None => add_operations r (files ++ [f])%list
               end
      end
  end.

(* ---------- PackageGenerator.generate ---------- *)
Definition basename (p : string) : string := l2s (path_name p).
Definition default_paths (e : env) : list string :=
  [fst (default_client e true true); fst (default_client e true false);
   fst (default_client e false true); fst (default_client e false false)].
Definition included_files (e : env) (c : csettings) : list string :=
  (c_files c
  ++ (if s_custom_ops (c_base c) then [(e_deps e ++ "/base_operation.py")%string] else [])
  ++ (if existsb (String.eqb (c_bc_path c)) (default_paths e) then [(e_deps e ++ "/exceptions.py")%string] else []))%list.

Fixpoint has_dup (l : list string) : bool :=
  match l with
  | [] => false
  | x :: r => existsb (String.eqb x) r || has_dup r
  end.
Fixpoint dups (seen l : list string) : list string :=       (* names seen before, once each *)
  match l with
  | [] => []
  | x :: r =>
      if existsb (String.eqb x) seen
      then (if existsb (String.eqb x) (dups seen r) then dups seen r else x :: dups seen r)
      else dups (x :: seen) r
  end.

Definition custom_files (c : csettings) (w : world) : list string :=
  if s_custom_ops (c_base c)
  then (["custom_typing_fields.py"; "custom_fields.py"]
        ++ (if w_query_type w then ["custom_queries.py"] else [])
        ++ (if w_mutation_type w then ["custom_mutations.py"] else []))%list
  else [].

Definition unique_check_names (e : env) (c : csettings) (w : world) (results : list string) : list string :=
  ([(c_client_file c ++ ".py")%string; basename (c_bc_path c); "base_model.py"; (c_enums c ++ ".py")%string;
   (c_inputs c ++ ".py")%string; (c_fragments c ++ ".py")%string]
  ++ results ++ map basename (included_files e c) ++ ["__init__.py"] ++ custom_files c w)%list.

(* order of the writes in generate() *)
Definition write_plan (e : env) (c : csettings) (w : world) (results : list string) : list string :=
  ([(c_inputs c ++ ".py")%string] ++ results
  ++ (if w_fragments w && negb (String.eqb (c_queries_path c) "") then [(c_fragments c ++ ".py")%string] else [])
  ++ map basename (included_files e c) ++ [basename (c_bc_path c); "base_model.py"]
  ++ custom_files c w
  ++ [(c_client_file c ++ ".py")%string; (c_enums c ++ ".py")%string; "__init__.py"])%list.

Definition pkg_dir (c : csettings) : string := c_pkg_path c ++ "/" ++ c_pkg_name c.

Definition generate (e : env) (c : csettings) (w : world) (results : list string) (log : list effect)
  : list effect * outcome :=
  if has_dup (unique_check_names e c w results)
  then (log, Failed PhGenerate (mkerr ParsingError "Duplicated file names: "))
  else
    let d := pkg_dir c in
    let log1 := if p_exists e d then log else (log ++ [EMkdir d])%list in
    ((log1 ++ map (fun f => EWrite (d ++ "/" ++ f)%string) (write_plan e c w results))%list, Done).

(* ---------- main.client ---------- *)
Definition run_client (e : env) (cfg : json) (w : world) : list effect * outcome :=
  match get_client_settings e cfg with
  | Ill => ([], IllCfg)
  | Err x => ([], Failed PhSettings x)
  | Ok c =>
      match load_schema (c_base c) w [] with
      | (log, Some x) => (log, Failed PhSchema x)
      | (log, None) =>
          match load_plugins w with
          | Some x => (log, Failed PhPlugins x)
          | None =>
              match assert_valid_schema w with
              | Some x => (log, Failed PhValidity x)
              | None =>
                  let '(log2, qerr) :=
                    if String.eqb (c_queries_path c) "" then (log, None)
                    else load_queries w stage_for_validation log in
                  match qerr with
                  | Some x => (log2, Failed PhQueries x)
                  | None =>
                      let log3 := (log2 ++ [EStdout; EGenerate stage_for_generation])%list in
                      let ops := if String.eqb (c_queries_path c) "" then [] else w_ops w in
                      match add_operations ops [] with
                      | Err x => (log3, Failed PhOperations x)
                      | Ill => (log3, IllCfg)
                      | Ok results => generate e c w results log3
                      end
                  end
              end
          end
      end
  end.

(* ---------- main.graphql_schema ---------- *)
(* Rendering (ast_to_str: black, isort) is not modelled: what it does with a keyword used as a variable
   name (`class: GraphQLSchema = ...` is refused, `None: GraphQLSchema = ...` is written) is left to the
   K3 oracle of the finding class F16. *)
Definition run_schema (e : env) (cfg : json) (w : world) : list effect * outcome :=
  match get_graphql_schema_settings e cfg with
  | Ill => ([], IllCfg)
  | Err x => ([], Failed PhSettings x)
  | Ok g =>
      match load_schema (g_base g) w [] with
      | (log, Some x) => (log, Failed PhSchema x)
      | (log, None) =>
          match load_plugins w with
          | Some x => (log, Failed PhPlugins x)
          | None =>
              match assert_valid_schema w with
              | Some x => (log, Failed PhValidity x)
              | None =>
                  let log2 := (log ++ [EStdout])%list in
                  ((log2 ++ [EWrite (g_target g)])%list, Done)
              end
          end
      end
  end.

(* ---------- the click command: get_config_dict, then the strategy ---------- *)
Inductive cfgfile := CfgNotFound (name : string) | CfgFound (path : string) (cfg : json).
Definition run_cli (client : bool) (e : env) (f : cfgfile) (w : world) : list effect * outcome :=
  match f with
  | CfgNotFound n => ([], Failed PhConfig (mkerr ConfigFileNotFound ("Config file " ++ n ++ " not found.")))
  | CfgFound p cfg =>
      let '(log, out) := if client then run_client e cfg w else run_schema e cfg w in
      (EReadConfig p :: log, out)
  end.

(* ---------- sexp interface ---------- *)
Definition dGfile (e : sexp) : option gfile :=
  match e with
  | L [A p; b] => match dB b with Some ok => Some {| gf_path := p; gf_ok := ok |} | None => None end
  | _ => None
  end.
Definition dBuild (e : sexp) : option build_res :=
  match e with
  | A "ok" => Some BuildOk
  | L [A "raises"; A c; A m] => Some (BuildRaises c m)
  | _ => None
  end.
Definition dExn (s : string) : exn :=
  if String.eqb s "ConfigFileNotFound" then ConfigFileNotFound
  else if String.eqb s "MissingConfiguration" then MissingConfiguration
  else if String.eqb s "InvalidConfiguration" then InvalidConfiguration
  else if String.eqb s "InvalidGraphqlSyntax" then InvalidGraphqlSyntax
  else if String.eqb s "InvalidOperationForSchema" then InvalidOperationForSchema
  else if String.eqb s "NotSupported" then NotSupported
  else if String.eqb s "ParsingError" then ParsingError
  else if String.eqb s "IntrospectionError" then IntrospectionError
  else if String.eqb s "PluginImportError" then PluginImportError
  else Other s.
Definition dErrO (e : sexp) : option (option err) :=
  match e with
  | A "none" => Some None
  | L [A "some"; L [A c; A m]] => Some (Some (mkerr (dExn c) m))
  | _ => None
  end.
Definition dOp (e : sexp) : option opinfo :=
  match e with
  | L [n; x] =>
      match dOpt dStr n, dErrO x with
      | Some n', Some x' => Some {| op_name := n'; op_err := x' |}
      | _, _ => None
      end
  | _ => None
  end.
Definition dRule (e : sexp) : option (string * string) :=
  match e with L [A r; A m] => Some (r, m) | _ => None end.
(* (urlclass status body-or-none deep) *)
Definition dRemote (e : sexp) : option (Introspect.urlclass * Introspect.response * option string) :=
  match e with
  | L [A u; st; body; deep] =>
      let uc := if String.eqb u "ok" then Some Introspect.UOk
                else if String.eqb u "invalid" then Some Introspect.UInvalid
                else if String.eqb u "noscheme" then Some Introspect.UNoScheme else None in
      let b := match body with
               | A "none" => Some None
               | L [A "some"; j] => match json_of_sexp j with Some v => Some (Some v) | None => None end
               | _ => None end in
      match uc, dZ st, b, dOpt dStr deep with
      | Some uc', Some z, Some b', Some d' =>
          Some (uc', {| Introspect.r_status := z; Introspect.r_body := b' |}, d')
      | _, _, _, _ => None
      end
  | _ => None
  end.

Definition dWorld (e : sexp) : option world :=
  match e with
  | L [sf; sb; rem; se; pe; qf; L [oe; oeraw]; ops; L [fr; qt; mt]] =>
      match dList dGfile sf, dBuild sb, dRemote rem, dList dStr se, dOpt dStr pe, dList dGfile qf,
            dList dRule oe, dList dOp ops, dAll dB [fr; qt; mt], dList dRule oeraw with
      | Some sf', Some sb', Some rem', Some se', Some pe', Some qf', Some oe', Some ops',
        Some [fr'; qt'; mt'], Some oeraw' =>
          Some {| w_schema_files := sf'; w_schema_build := sb'; w_url := fst (fst rem'); w_resp := snd (fst rem');
                  w_deep := snd rem'; w_schema_errors := se';
                  w_plugin_err := pe'; w_query_files := qf'; w_op_errors := oe'; w_op_errors_raw := oeraw'; w_ops := ops';
                  w_fragments := fr'; w_query_type := qt'; w_mutation_type := mt' |}
      | _, _, _, _, _, _, _, _, _, _ => None
      end
  | _ => None
  end.

Definition sEffect (f : effect) : sexp :=
  match f with
  | EReadConfig p => L [A "readconfig"; A p] | ERead p => L [A "read"; A p]
  | EHttp u => L [A "http"; A u] | EStdout => L [A "stdout"]
  | EValidateOps s => L [A "validate-ops"; A (if is_processed s then "processed" else "raw")]
  | EGenerate s => L [A "generate-with"; A (if is_processed s then "processed" else "raw")]
  | EMkdir p => L [A "mkdir"; A p] | EWrite p => L [A "write"; A p]
  end.
Definition sOutcome (o : outcome) : sexp :=
  match o with
  | Done => L [A "done"]
  | Failed ph x => L [A "failed"; A (phase_name ph); A (exn_name (x_cls x)); A (x_msg x)]
  | IllCfg => L [A "ill"]
  end.
Definition sRun (r : list effect * outcome) : sexp :=
  L [sOutcome (snd r); L (map sEffect (fst r)); sB (no_writes (fst r))].

Definition dCfgFile (e : sexp) : option cfgfile :=
  match e with
  | L [A "notfound"; A n] => Some (CfgNotFound n)
  | L [A "found"; A p; c] => match json_of_sexp c with Some j => Some (CfgFound p j) | None => None end
  | _ => None
  end.

Definition run_pipeline (e : sexp) : sexp :=
  match e with
  | L [A "run"; A which; cf; en; wo] =>
      match dCfgFile cf, dEnv en, dWorld wo with
      | Some f, Some v, Some w =>
          if String.eqb which "client" then sRun (run_cli true v f w)
          else if String.eqb which "schema" then sRun (run_cli false v f w)
          else sErr "pipeline: strategy"
      | _, _, _ => sErr "pipeline: bad arguments"
      end
  | L [A "module-name"; A n] => A (module_name n)
  | _ => run_settings e
  end.
