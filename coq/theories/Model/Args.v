(* Model of ariadne_codegen/client_generators/arguments.py (ArgumentsGenerator.generate,
   _parse_type_node, _parse_named_type_node, _is_nullable, _process_optional_arg_annotation,
   _get_dict_value) and client.py get_variable_names.  Executable definitions only. *)
From Coq Require Import List String Ascii ZArith Bool.
From AC Require Import Base.Strs Base.Sexp Base.Json Model.Names Gql.Coerce.
Import ListNotations.
Local Open Scope string_scope.

(* annotation ASTs the generator builds (codegen.generate_annotation_name & co) *)
Inductive ann :=
| AName (s : string)
| AOptional (a : ann)
| AList (a : ann)
| AUnionUnset (a : ann)                      (* Union[a, UnsetType] *)
| AAnnotated (a : ann) (wrapper fn : string). (* Annotated[a, wrapper(fn)] *)

Fixpoint ann_str (a : ann) : string :=
  match a with
  | AName s => s
  | AOptional x => "Optional[" ++ ann_str x ++ "]"
  | AList x => "List[" ++ ann_str x ++ "]"
  | AUnionUnset x => "Union[" ++ ann_str x ++ ", UnsetType]"
  | AAnnotated x w f => "Annotated[" ++ ann_str x ++ ", " ++ w ++ "(" ++ f ++ ")]"
  end.

(* ScalarData._get_object_name: the part after the LAST dot *)
Fixpoint split_last_dot (acc cur : chars) (seen : bool) (l : chars) : option chars * chars :=
  match l with
  | [] => (if seen then Some acc else None, cur)
  | c :: r =>
      if Ascii.eqb c "."%char
      then split_last_dot (if seen then app acc (app ["."%char] cur) else cur) [] true r
      else split_last_dot acc (app cur [c]) seen r
  end.

(* (module, object): module None when the name has no dot *)
Definition split_dotted (s : string) : option string * string :=
  let '(m, o) := split_last_dot [] [] false (s2l s) in (option_map l2s m, l2s o).

Definition object_name (s : string) : string := snd (split_dotted s).

(* constants.INPUT_SCALARS_MAP without Upload (uploads are C11's subject) *)
Definition input_scalar_py (b : builtin) : string :=
  match b with BInt => "int" | BFloat => "float" | BString => "str" | BBoolean => "bool" | BID => "str" end.

Definition annotation_name (n : string) (nullable : bool) : ann :=
  if nullable then AOptional (AName n) else AName n.

(* _parse_named_type_node: (annotation, custom scalar used) *)
Definition parse_named (S : schema) (n : string) (nullable : bool) : option (ann * option string) :=
  match lookup_type S n with
  | None => None                                         (* ParsingError *)
  | Some (DInput _) => Some (annotation_name n nullable, None)
  | Some (DEnum _) => Some (annotation_name n nullable, None)
  | Some (DBuiltin b) => Some (annotation_name (input_scalar_py b) nullable, None)
  | Some (DCustom None) => Some (annotation_name "Any" nullable, None)
  | Some (DCustom (Some c)) => Some (annotation_name (object_name (sc_type c)) nullable, Some n)
  end.

(* _parse_type_node: note that a list passes ITS OWN nullable flag down to its items (F21) *)
Fixpoint parse_type_node (S : schema) (t : gtype) (nullable : bool) : option (ann * option string) :=
  match t with
  | TNamed n => parse_named S n nullable
  | TList t' =>
      match parse_type_node S t' nullable with
      | Some (a, u) => Some (if nullable then AOptional (AList a) else AList a, u)
      | None => None
      end
  | TNonNull t' => parse_type_node S t' false
  end.

Definition ann_is_nullable (a : ann) : bool := match a with AOptional _ => true | _ => false end.

Inductive dictval := DName (py : string) | DCall (fn py : string).

Definition dictval_str (d : dictval) : string :=
  match d with DName p => p | DCall f p => f ++ "(" ++ p ++ ")" end.

Record param := { p_name : string; p_ann : ann; p_required : bool }.

Definition arg_flags (snake : bool) : pflags := {| f_snake := snake; f_trim := false; f_reserved := false |}.
Definition pname (snake : bool) (s : string) : string := l2s (process_name (arg_flags snake) (s2l s)).

(* the serialize function name used for a variable, if any *)
Definition ser_name (S : schema) (used : option string) : option string :=
  match used with
  | None => None
  | Some n => match assoc n S with
              | Some (DCustom (Some c)) => option_map object_name (sc_ser c)
              | _ => None
              end
  end.

Definition dict_value (S : schema) (py : string) (used : option string) : dictval :=
  match ser_name S used with Some f => DCall f py | None => DName py end.

(* one variable definition -> (parameter, dict entry) *)
Definition gen_one (S : schema) (snake : bool) (v : vardef) : option (param * (string * dictval)) :=
  let py := pname snake (v_name v) in
  match parse_type_node S (v_type v) true with
  | None => None
  | Some (a, used) =>
      let req := negb (ann_is_nullable a) in
      Some ({| p_name := py; p_ann := if req then a else AUnionUnset a; p_required := req |},
            (v_name v, dict_value S py used))
  end.

Record generated := { g_params : list param;                  (* after self, before **kwargs *)
                      g_dict : list (string * dictval) }.

Definition generate (S : schema) (snake : bool) (vs : list vardef) : option generated :=
  match map_opt (gen_one S snake) vs with
  | None => None
  | Some l =>
      let ps := map fst l in
      Some {| g_params := app (filter p_required ps) (filter (fun p => negb (p_required p)) ps);
              g_dict := map snd l |}
  end.

(* client.py get_variable_names: query, variables, response, data; `self` is in arguments.args *)
Definition local_name (argnames : list string) (v : string) : string :=
  if mem_str v argnames then "_" ++ v else v.

Definition variable_names (g : generated) : list string :=
  let names := "self" :: map p_name (g_params g) in
  map (local_name names) ["query"; "variables"; "response"; "data"].

(* ---- sexp ---- *)
Definition sParam (p : param) : sexp := L [A (p_name p); A (ann_str (p_ann p)); sB (p_required p)].
Definition sGenerated (g : generated) : sexp :=
  L [L (map sParam (g_params g));
     L (map (fun e => L [A (fst e); A (dictval_str (snd e))]) (g_dict g));
     L (map A (variable_names g))].
