(* Model of ariadne_codegen/client_generators/arguments.py (ArgumentsGenerator.generate,
   _parse_type_node, _parse_named_type_node, _is_nullable, _process_optional_arg_annotation,
   _get_dict_value) and client.py get_variable_names.  Executable definitions only. *)
From Coq Require Import List String Ascii ZArith Bool.
From AC Require Import Base.Strs Base.Sexp Base.Json Model.Names Gql.Coerce.
Import ListNotations.
Local Open Scope string_scope.

(* annotation ASTs the generator builds (codegen.generate_annotation_name & co) *)
Inductive ann :=
| AName (s : string)
| AOptional (a : ann)
| AList (a : ann)
| AUnionUnset (a : ann)                      (* Union[a, UnsetType] *)
| AAnnotated (a : ann) (wrapper fn : string). (* Annotated[a, wrapper(fn)] *)

Fixpoint ann_str (a : ann) : string :=
  match a with
  | AName s => s
  | AOptional x => "Optional[" ++ ann_str x ++ "]"
  | AList x => "List[" ++ ann_str x ++ "]"
  | AUnionUnset x => "Union[" ++ ann_str x ++ ", UnsetType]"
  | AAnnotated x w f => "Annotated[" ++ ann_str x ++ ", " ++ w ++ "(" ++ f ++ ")]"
  end.

(* ScalarData._get_object_name: the part after the LAST dot *)
Fixpoint split_last_dot (acc cur : chars) (seen : bool) (l : chars) : option chars * chars :=
  match l with
  | [] => (if seen then Some acc else None, cur)
  | c :: r =>
      if Ascii.eqb c "."%char
      then split_last_dot (if seen then app acc (app ["."%char] cur) else cur) [] true r
      else split_last_dot acc (app cur [c]) seen r
  end.

(* (module, object): module None when the name has no dot *)
Definition split_dotted (s : string) : option string * string :=
  let '(m, o) := split_last_dot [] [] false (s2l s) in (option_map l2s m, l2s o).

Definition object_name (s : string) : string := snd (split_dotted s).

(* constants.INPUT_SCALARS_MAP without Upload (uploads are C11's subject) *)
Definition input_scalar_py (b : builtin) : string :=
  match b with BInt => "int" | BFloat => "float" | BString => "str" | BBoolean => "bool" | BID => "str" end.

Definition annotation_name (n : string) (nullable : bool) : ann :=
  if nullable then AOptional (AName n) else AName n.

(* _parse_named_type_node: (annotation, custom scalar used) *)
Definition parse_named (S : schema) (n : string) (nullable : bool) : option (ann * option string) :=
  match lookup_type S n with
  | None => None                                         (* ParsingError *)
  | Some (DInput _) => Some (annotation_name n nullable, None)
  | Some (DEnum _) => Some (annotation_name n nullable, None)
  | Some (DBuiltin b) => Some (annotation_name (input_scalar_py b) nullable, None)
  | Some (DCustom None) => Some (annotation_name "Any" nullable, None)
  | Some (DCustom (Some c)) => Some (annotation_name (object_name (sc_type c)) nullable, Some n)
  end.

(* _parse_type_node: list items start nullable again (since /repo 0db841f; before that a list passed
   ITS OWN flag down to its items, the signature half of F21) *)
Fixpoint parse_type_node (S : schema) (t : gtype) (nullable : bool) : option (ann * option string) :=
  match t with
  | TNamed n => parse_named S n nullable
  | TList t' =>
      match parse_type_node S t' true with
      | Some (a, u) => Some (if nullable then AOptional (AList a) else AList a, u)
      | None => None
      end
  | TNonNull t' => parse_type_node S t' false
  end.

Definition ann_is_nullable (a : ann) : bool := match a with AOptional _ => true | _ => false end.

(* expressions of the variables dict (since /repo d163d56: _generate_serialize_expr) *)
Inductive sexpr :=
| EVar (x : string)                                   (* x *)
| ECall (f : string) (x : string)                     (* f(x) *)
| EComp (item : string) (elt : sexpr) (x : string)    (* [elt for item in x] *)
| EGuard (top : bool) (x : string) (e : sexpr)        (* x if x is None [or x is UNSET] else e *)
| ENotNone (x : string) (e : sexpr).                  (* e if x is not None else None   (custom_arguments.py) *)

Definition dictval := sexpr.

Fixpoint dictval_str (d : sexpr) : string :=
  match d with
  | EVar x => x
  | ECall f x => f ++ "(" ++ x ++ ")"
  | EComp i e x => "[" ++ dictval_str e ++ " for " ++ i ++ " in " ++ x ++ "]"
  | EGuard top x e => x ++ " if " ++ x ++ " is None" ++ (if top then " or " ++ x ++ " is UNSET" else "")
                        ++ " else " ++ dictval_str e
  | ENotNone x e => dictval_str e ++ " if " ++ x ++ " is not None else None"
  end.

Definition item_name (depth : nat) : string := "_item" ++ z_to_string (Z.of_nat depth).
(* arguments.py (since /repo 6bef770): the comprehension variable steps aside when the serialize function has its name *)
Definition item_for (f : string) (depth : nat) : string :=
  if String.eqb (item_name depth) f then item_name depth ++ "_" else item_name depth.

(* _generate_serialize_expr(node, value, serialize_name, nullable, depth): the value is always a name *)
Fixpoint gen_se (t : gtype) (x f : string) (nullable : bool) (depth : nat) : sexpr :=
  match t with
  | TNonNull t' => gen_se t' x f false depth
  | TList t' =>
      let e := EComp (item_for f depth) (gen_se t' (item_for f depth) f true (Datatypes.S depth)) x in
      if nullable then EGuard (Nat.eqb depth 0) x e else e
  | TNamed _ =>
      let e := ECall f x in
      if nullable then EGuard (Nat.eqb depth 0) x e else e
  end.

Record param := { p_name : string; p_ann : ann; p_required : bool }.

Definition arg_flags (snake : bool) : pflags := {| f_snake := snake; f_trim := false; f_reserved := false |}.
(* process_name of the variable name (before the clash handling) *)
(* since /repo 70630f0: a mangled name that is no identifier (snake-casing _1 gives 1) gets an underscore back *)
Definition base_name (snake : bool) (s : string) : string :=
  let p := process_name (arg_flags snake) (s2l s) in
  if py_identifier p then l2s p else "_" ++ l2s p.

(* `while name in used_names: name += "_"` (since /repo 7f3b78b).  The loop ends after at most
   |used|+1 rounds; [n] is that bound (the result for n = S (length used) is proved free in ArgsP). *)
Fixpoint fresh (n : nat) (used : list string) (name : string) : string :=
  match n with
  | O => name
  | Datatypes.S n' => if mem_str name used then fresh n' used (name ++ "_") else name
  end.

(* parameters in declaration order; every assigned name joins the used set *)
Fixpoint assign (used : list string) (bases : list string) : list string :=
  match bases with
  | [] => []
  | b :: r => let nm := fresh (Datatypes.S (List.length used)) used b in nm :: assign (nm :: used) r
  end.

(* _get_reserved_argument_names: self, kwargs, gql, UNSET and the serialize function of every configured scalar *)
Definition reserved_names (S : schema) : list string :=
  ["self"; "kwargs"; "gql"; "UNSET"] ++
  flat_map (fun d => match snd d with
                     | DCustom (Some c) => match sc_ser c with Some f => [object_name f] | None => [] end
                     | _ => [] end) S.

(* the Python parameter of each variable of an operation, as a function of the GraphQL variable name
   (variable names of a valid operation are distinct; for an unknown name: the mangled name) *)
(* [extra]: further names the method body refers to - since /repo e1c98d1 the operation's result class *)
Definition naming (S : schema) (snake : bool) (extra : list string) (vs : list vardef) : string -> string :=
  let ks := map v_name vs in
  let ps := assign (reserved_names S ++ extra) (map (base_name snake) ks) in
  fun x => match assoc x (combine ks ps) with Some p => p | None => base_name snake x end.

(* the serialize function name used for a variable, if any *)
Definition ser_name (S : schema) (used : option string) : option string :=
  match used with
  | None => None
  | Some n => match assoc n S with
              | Some (DCustom (Some c)) => option_map object_name (sc_ser c)
              | _ => None
              end
  end.

(* custom_arguments.py _generate_serialize_expr (since /repo 3032a3a; enable_custom_operations): same element-wise
   shape, None stays None, and the argument itself (depth 0) is always guarded ("None = not given") *)
Fixpoint gen_cu (t : gtype) (x f : string) (nullable : bool) (depth : nat) : sexpr :=
  match t with
  | TNonNull t' => gen_cu t' x f false depth
  | TList t' =>
      let e := EComp (item_name depth) (gen_cu t' (item_name depth) f true (Datatypes.S depth)) x in
      if nullable || Nat.eqb depth 0 then ENotNone x e else e
  | TNamed _ =>
      let e := ECall f x in
      if nullable || Nat.eqb depth 0 then ENotNone x e else e
  end.

Definition dict_value (S : schema) (py : string) (used : option string) (t : gtype) : dictval :=
  match ser_name S used with Some f => gen_se t py f true 0 | None => EVar py end.

(* one variable definition -> (parameter, dict entry) *)
Definition gen_one (S : schema) (nm : string -> string) (v : vardef) : option (param * (string * dictval)) :=
  let py := nm (v_name v) in
  match parse_type_node S (v_type v) true with
  | None => None
  | Some (a, used) =>
      let req := negb (ann_is_nullable a) in
      Some ({| p_name := py; p_ann := if req then a else AUnionUnset a; p_required := req |},
            (v_name v, dict_value S py used (v_type v)))
  end.

Record generated := { g_params : list param;                  (* after self, before **kwargs *)
                      g_dict : list (string * dictval) }.

Definition generate (S : schema) (nm : string -> string) (vs : list vardef) : option generated :=
  match map_opt (gen_one S nm) vs with
  | None => None
  | Some l =>
      let ps := map fst l in
      Some {| g_params := app (filter p_required ps) (filter (fun p => negb (p_required p)) ps);
              g_dict := map snd l |}
  end.

(* client.py get_variable_names: query, variables, response, data; `self` is in arguments.args;
   `while name in argument_names: name = "_" + name` (since /repo 7f3b78b) *)
Fixpoint fresh_local (n : nat) (argnames : list string) (v : string) : string :=
  match n with
  | O => v
  | Datatypes.S n' => if mem_str v argnames then fresh_local n' argnames ("_" ++ v) else v
  end.

Definition local_name (argnames : list string) (v : string) : string :=
  fresh_local (Datatypes.S (List.length argnames)) argnames v.

(* names the method body CALLS: a local steps aside for them too (since /repo 6bef770) *)
Definition called_names (S : schema) : list string :=
  "gql" :: flat_map (fun d => match snd d with
                              | DCustom (Some c) => match sc_ser c with Some f => [object_name f] | None => [] end
                              | _ => [] end) S.

Definition variable_names (S : schema) (g : generated) : list string :=
  let names := app ("self" :: map p_name (g_params g)) (called_names S) in
  map (local_name names) ["query"; "variables"; "response"; "data"].

(* ---- sexp ---- *)
Definition sParam (p : param) : sexp := L [A (p_name p); A (ann_str (p_ann p)); sB (p_required p)].
Definition sGenerated (S : schema) (g : generated) : sexp :=
  L [L (map sParam (g_params g));
     L (map (fun e => L [A (fst e); A (dictval_str (snd e))]) (g_dict g));
     L (map A (variable_names S g))].
