(* C10 — sources of nondeterminism made explicit.  Definitions only (proofs: Proofs/NondetP.v).

   Every Gallina function is deterministic, so what Python leaves unspecified is a parameter here:
   * a `set` is a list (its content, no duplicates) TOGETHER WITH a permutation code chosen by an oracle:
     iterating the set yields [permute (o key) content]; [permute] reaches every permutation and only
     permutations (NondetP.permute_perm / permute_complete), so "for all oracles" = "for all iteration orders";
   * a directory listing (Path.glob) is the same: the files, permuted by an oracle;
   * the target directory is a finite map from file name to content, [write_all] is the writer.
   The site table at the end lists every place of ariadne_codegen where such a collection is built or
   consumed (the harness compares it with a static scan of the source on every run). *)
From Coq Require Import List String Ascii Bool Arith Lia.
From AC Require Import Base.Strs Base.Sexp Base.SortUniq Model.Names Model.Settings.
Import ListNotations.
Local Open Scope string_scope.
Local Open Scope list_scope.

(* ------------------------------------------------------------------ oracles *)
Fixpoint remove_nth {A} (n : nat) (l : list A) : list A :=
  match l with
  | [] => []
  | x :: r => match n with 0 => r | S n' => x :: remove_nth n' r end
  end.

(* Lehmer-style code: the k-th remaining element is emitted next, k = head of the code mod what is left;
   the empty code is the identity (all k = 0) *)
Fixpoint permute_aux {A} (fuel : nat) (o : list nat) (l : list A) : list A :=
  match fuel with
  | 0 => []
  | S f =>
      match l with
      | [] => []
      | d :: _ =>
          let k := Nat.modulo (hd 0 o) (List.length l) in
          nth k l d :: permute_aux f (tl o) (remove_nth k l)
      end
  end.
Definition permute {A} (o : list nat) (l : list A) : list A := permute_aux (List.length l) o l.

(* one permutation code per set identity (the key names the set: a fragment name, a site id, …) *)
Definition orc := string -> list nat.
Definition orc_id : orc := fun _ => [].
Fixpoint orc_of (al : list (string * list nat)) : orc :=
  fun k => match al with
           | [] => []
           | (k', c) :: r => if String.eqb k k' then c else orc_of r k
           end.

(* ------------------------------------------------------------------ Python set algebra on contents *)
Definition mem_s (x : string) (l : list string) : bool := existsb (String.eqb x) l.
Fixpoint dedupe (l : list string) : list string :=
  match l with
  | [] => []
  | x :: r => if mem_s x r then dedupe r else x :: dedupe r
  end.
Definition set_diff (a b : list string) : list string := filter (fun x => negb (mem_s x b)) a.
Definition set_union (a b : list string) : list string := a ++ set_diff b a.

Definition pascal_s (s : string) : string := l2s (pascal (s2l s)).

(* ------------------------------------------------------------------ sorted(...) sites *)
(* class bases:  [str_to_pascal_case(f) for f in sorted(fragments)]            result_types.py *)
Definition class_bases (code : list nat) (fragments : list string) : list string :=
  map pascal_s (str_sort (permute code fragments)).

(* operation string: for used_fragment in sorted(self._get_all_related_fragments())   result_types.py *)
Definition related_fragments (code : list nat) (related : list string) : list string :=
  str_sort (permute code related).

(* __typename literal: result[abstract].extend(list(set(possible) - set(types_names))) and then
   generate_typename_annotation: sorted(typename_values)                     result_types.py / result_fields.py *)
Definition typename_values_raw (code : list nat) (abstract : string) (types_names possible : list string)
  : list string := abstract :: permute code (set_diff possible types_names).
Definition typename_literal (code : list nat) (abstract : string) (types_names possible : list string)
  : list string := str_sort (typename_values_raw code abstract types_names possible).

(* ------------------------------------------------------------------ isort on the names of one from-import *)
(* str.isupper(): at least one cased character and no lower-case one (ASCII names) *)
Definition py_isupper (s : string) : bool :=
  let l := s2l s in existsb is_upper l && negb (existsb is_lower l).
Definition first_upper (s : string) : bool :=
  match s2l s with c :: _ => is_upper c | [] => false end.
(* isort.sorting.module_key(name, config, sub_imports=True) with the default configuration
   (order_by_type, not case_sensitive, no force_to_top, no length_sort) *)
Definition isort_key (name : string) : string :=
  let prefix := if py_isupper name && (Nat.ltb 1 (String.length name)) then "A"
                else if first_upper name then "B" else "C" in
  ("B" ++ prefix ++ lower_s name)%string.
(* names of `from m import a, b, c` after isort: duplicates dropped (first occurrence kept), then
   sorted(names, key=module_key) — a STABLE sort, ties keep the order of appearance *)
Fixpoint dedupe_first (seen l : list string) : list string :=
  match l with
  | [] => []
  | x :: r => if mem_s x seen then dedupe_first seen r else x :: dedupe_first (x :: seen) r
  end.
Definition isort_names (names : list string) : list string :=
  ksort str_leb isort_key (dedupe_first [] names).

(* operation module:  generate_import_from([str_to_pascal_case(f) for f in sorted(self._fragments_used_as_mixins)],
   fragments_module, 1)  -> autoflake keeps every used name -> isort.           result_types.py (since 93e79d6) *)
Definition op_import_names (code : list nat) (mixins : list string) : list string :=
  isort_names (map pascal_s (str_sort (permute code mixins))).
(* what the code did before 93e79d6 (the set iterated as it comes): kept ONLY for the regression Examples *)
Definition op_import_names_unsorted (code : list nat) (mixins : list string) : list string :=
  isort_names (map pascal_s (permute code mixins)).

(* ------------------------------------------------------------------ the fragments module *)
Fixpoint assoc_s {V} (k : string) (al : list (string * V)) : option V :=
  match al with
  | [] => None
  | (k', v) :: r => if String.eqb k k' then Some v else assoc_s k r
  end.

Record finput := {
  fi_defs : list string;                       (* fragments_definitions.keys(), document order *)
  fi_mix : list (string * list string);        (* per fragment: content of get_fragments_used_as_mixins() *)
  fi_excl : list string                        (* exclude_names *)
}.
Definition mix_of (fi : finput) (n : string) : list string :=
  match assoc_s n (fi_mix fi) with Some l => l | None => [] end.
(* iterating dependencies_dict[name] *)
Definition deps_iter (o : orc) (fi : finput) (n : string) : list string := permute (o n) (mix_of fi n).

(* FragmentsGenerator.generate: the worklist.  names = self._fragments_names (content), queue =
   names_to_generate, processed = insertion order of class_defs_dict / imports / top_level_class_names.
   `for dependency in sorted(dependencies_dict[name])` (sorted since cb6eaa9) *)
Fixpoint work (fuel : nat) (o : orc) (fi : finput) (queue names processed : list string)
  : option (list string * list string) :=
  match queue with
  | [] => Some (names, processed)
  | n :: q =>
      match fuel with
      | 0 => None
      | S f =>
          let fresh := set_diff (dedupe_first [] (str_sort (deps_iter o fi n))) names in
          work f o fi (q ++ fresh) (names ++ fresh) (processed ++ [n])
      end
  end.

(* _get_sorted_fragments_names.visit — state = (visited, sorted_names);
   `for dep in sorted(dependencies_dict[name])` (since 93e79d6) *)
Definition dfs_deps (o : orc) (fi : finput) (n : string) : list string := str_sort (deps_iter o fi n).
(* before 93e79d6 the set was iterated as it comes: kept ONLY for the regression Examples *)
Definition dfs_deps_unsorted (o : orc) (fi : finput) (n : string) : list string := deps_iter o fi n.

Fixpoint visit (fuel : nat) (deps : string -> list string) (n : string) (st : list string * list string)
  : option (list string * list string) :=
  match fuel with
  | 0 => None
  | S f =>
      let (vis, out) := st in
      if mem_s n vis then Some st
      else match fold_left (fun acc d => match acc with Some s => visit f deps d s | None => None end)
                           (deps n) (Some (n :: vis, out)) with
           | Some (vis', out') => Some (vis', out' ++ [n])
           | None => None
           end
  end.

Definition dfs_all (fuel : nat) (deps : string -> list string) (roots : list string) : option (list string) :=
  match fold_left (fun acc r => match acc with Some s => visit fuel deps r s | None => None end)
                  roots (Some ([], [])) with
  | Some (_, out) => Some out
  | None => None
  end.

Definition frag_fuel (fi : finput) : nat := S (S (List.length (fi_defs fi))).

(* (order in which fragments are generated, order of the fragments' classes in the module);
   "<names>" is the key of the set self._fragments_names.  None = fuel exhausted (never with frag_fuel on
   inputs whose dependencies are defined fragments: Example in Properties/C10.v, and the tie) *)
Definition frag_module_order_with (deps : orc -> finput -> string -> list string) (o : orc) (fi : finput)
  : option (list string * list string) :=
  let names0 := set_diff (fi_defs fi) (fi_excl fi) in
  match work (frag_fuel fi) o fi (str_sort (permute (o "<names>") names0)) names0 [] with
  | None => None
  | Some (names, processed) =>
      match dfs_all (frag_fuel fi) (deps o fi) (str_sort (permute (o "<names>") names)) with
      | Some order => Some (processed, order)
      | None => None
      end
  end.
Definition frag_module_order : orc -> finput -> option (list string * list string) :=
  frag_module_order_with dfs_deps.
Definition frag_module_order_unsorted : orc -> finput -> option (list string * list string) :=
  frag_module_order_with dfs_deps_unsorted.      (* regression Examples only *)

(* ------------------------------------------------------------------ loading a directory of .graphql files *)
Definition gql_ext (parts : list string) : bool :=
  let suf := path_suffix (last parts "") in
  String.eqb suf ".graphql" || String.eqb suf ".graphqls" || String.eqb suf ".gql".

(* load_graphql_files_from_path on a directory:
   "\n".join(read(f) for f in sorted(f for f in path.glob("**/*") if f.suffix in extensions))
   a file = (path parts relative to the directory, content); pathlib orders paths by their parts *)
Definition load_dir (code : list nat) (files : list (list string * string)) : list (list string * string) :=
  ksort path_leb fst (filter (fun f => gql_ext (fst f)) (permute code files)).
Definition load_dir_text (code : list nat) (files : list (list string * string)) : string :=
  String.concat (String (ascii_of_nat 10) "") (map snd (load_dir code files)).

(* ------------------------------------------------------------------ the target directory *)
Definition fsmap := list (string * string).          (* file name -> content, first binding wins *)
Definition fs_lookup (n : string) (fs : fsmap) : option string := assoc_s n fs.
(* Path.write_text: replace in place when present, create otherwise *)
Fixpoint fs_write (n b : string) (fs : fsmap) : fsmap :=
  match fs with
  | [] => [(n, b)]
  | (n', b') :: r => if String.eqb n n' then (n, b) :: r else (n', b') :: fs_write n b r
  end.
Definition write_all (p : list (string * string)) (fs : fsmap) : fsmap :=
  fold_left (fun fs f => fs_write (fst f) (snd f) fs) p fs.
(* the value the package assigns to a name: the LAST write of that name *)
Fixpoint last_write (n : string) (p : list (string * string)) : option string :=
  match p with
  | [] => None
  | (n', b) :: r => match last_write n r with
                    | Some b' => Some b'
                    | None => if String.eqb n n' then Some b else None
                    end
  end.

(* ------------------------------------------------------------------ interpreter-global state *)
(* The `from m import names` nodes that ClientGenerator puts into every client module are MODULE-LEVEL
   constants (UNSET_IMPORT, UPLOAD_IMPORT, ...), shared by all generations of one interpreter.
   pstate = the names each shared node holds.  ClientForwardRefsPlugin._update_existing_imports builds NEW
   ImportFrom nodes with the reduced names (since be644af), so a generation hands the state on unchanged.
   [wanted] = the types the plugin wants to import only under TYPE_CHECKING; it can only move those it finds
   among the imports.  Result: ((import statements of client.py, names under TYPE_CHECKING), state afterwards). *)
Definition pstate := list (string * list string).
Definition all_names (st : pstate) : list string := flat_map snd st.
Definition nonempty_imports (st : pstate) : pstate :=
  filter (fun p => match snd p with [] => false | _ => true end) st.   (* _add_import drops nameless imports *)
Definition reduced_imports (wanted : list string) (st : pstate) : pstate * list string :=
  let moved := filter (fun n => mem_s n (all_names st)) wanted in
  (map (fun p => (fst p, set_diff (snd p) moved)) st, moved).
Definition gen_client_imports (plugin : bool) (wanted : list string) (st : pstate)
  : (pstate * list string) * pstate :=
  if plugin then
    let '(reduced, moved) := reduced_imports wanted st in ((nonempty_imports reduced, moved), st)
  else ((nonempty_imports st, []), st).
(* before be644af the plugin assigned node.names = reduced_names on the shared nodes: regression Examples only *)
Definition gen_client_imports_mutating (plugin : bool) (wanted : list string) (st : pstate)
  : (pstate * list string) * pstate :=
  if plugin then
    let '(reduced, moved) := reduced_imports wanted st in ((nonempty_imports reduced, moved), reduced)
  else ((nonempty_imports st, []), st).
(* a history of earlier generations (plugin?, wanted) in the same interpreter *)
Definition run_history (hist : list (bool * list string)) (st : pstate) : pstate :=
  fold_left (fun st h => snd (gen_client_imports (fst h) (snd h) st)) hist st.
Definition st_initial : pstate :=
  [("base_model", ["UNSET"; "UnsetType"]); ("base_model", ["Upload"]); ("async_base_client", ["AsyncBaseClient"])].

(* ------------------------------------------------------------------ isort's section placement *)
(* isort puts every `from m import ...` into a section: __future__, standard library, third party, first party,
   local (relative).  isort.place: relative -> local; known lists (stdlib ...) next; then, for every configured
   SOURCE PATH, the filesystem: a module/package named like the root of m there makes it first party; otherwise
   the default section, third party.  Since f6e5e03 the generator calls isort.code(code, config=ISORT_CONFIG)
   with ISORT_CONFIG = isort.Config(src_paths=()): no source path, the filesystem is never consulted.
   [ienv] is the filesystem oracle (is module m found below cwd when isort first places it?); it is still an
   argument of [place]: the environment exists, the code no longer looks at it.
   [place_default] = isort.code(code) with the default configuration (source paths <cwd>/src, <cwd>), what the
   code did before f6e5e03: kept ONLY for the regression Examples. *)
Inductive isection := SecFuture | SecStdlib | SecThirdParty | SecFirstParty | SecLocal.
Definition isection_eqb (a b : isection) : bool :=
  match a, b with
  | SecFuture, SecFuture | SecStdlib, SecStdlib | SecThirdParty, SecThirdParty
  | SecFirstParty, SecFirstParty | SecLocal, SecLocal => true
  | _, _ => false
  end.
Definition ienv := string -> bool.
Fixpoint root_chars (l : chars) : chars :=
  match l with
  | [] => []
  | c :: r => if Ascii.eqb c "."%char then [] else c :: root_chars r
  end.
Definition root_of (m : string) : string := l2s (root_chars (s2l m)).
(* an import = (level, module): level 0 is absolute *)
Definition place_known (stdlib : list string) (imp : nat * string) : option isection :=
  if Nat.ltb 0 (fst imp) then Some SecLocal
  else let r := root_of (snd imp) in
       if String.eqb r "__future__" then Some SecFuture
       else if mem_s r stdlib then Some SecStdlib else None.
Definition place (stdlib : list string) (env : ienv) (imp : nat * string) : isection :=
  match place_known stdlib imp with Some sec => sec | None => SecThirdParty end.
Definition place_default (stdlib : list string) (env : ienv) (imp : nat * string) : isection :=
  match place_known stdlib imp with
  | Some sec => sec
  | None => if env (snd imp) then SecFirstParty else SecThirdParty
  end.
(* the blocks of absolute imports, in section order; inside a block by lower-cased module name; empty blocks
   do not appear (each block is followed by a blank line in the file) *)
Definition block (pl : nat * string -> isection) (imps : list (nat * string)) (sec : isection) : list string :=
  ksort str_leb lower_s (dedupe_first [] (map snd (filter (fun i => isection_eqb (pl i) sec) imps))).
Definition layout_with (pl : nat * string -> isection) (imps : list (nat * string)) : list (list string) :=
  filter (fun b => match b with [] => false | _ => true end)
         (map (block pl imps) [SecFuture; SecStdlib; SecThirdParty; SecFirstParty]).
Definition layout (stdlib : list string) (env : ienv) (imps : list (nat * string)) : list (list string) :=
  layout_with (place stdlib env) imps.
Definition layout_default (stdlib : list string) (env : ienv) (imps : list (nat * string)) : list (list string) :=
  layout_with (place_default stdlib env) imps.
(* what isort sees while a package is generated with cwd = the project directory: the entries of cwd; and the
   target package itself — always when a previous generation left it there; on a fresh run the directory is
   created empty just before the first file (input_types.py) is formatted: an empty directory is a namespace
   package to isort, the nested module is not in it yet, so the modules first placed THEN ([early]) are "not
   first party" (and stay so: cached), while modules first placed for a later file find a directory with a
   python file in it, i.e. a regular package *)
Definition gen_env (cwd : list string) (target : string) (regenerate : bool) (early : list string) : ienv :=
  fun m => let r := root_of m in
           mem_s r cwd || (String.eqb r target && (regenerate || negb (mem_s m early))).
(* ------------------------------------------------------------------ the site table *)
Inductive sink :=
| SkNone        (* construction / pure set algebra: no order observed here *)
| SkSorted      (* iteration order erased by sorted() (here or at the single consumer downstream) *)
| SkMember      (* only membership / equality / emptiness / size is observed, or the loop only feeds another set *)
| SkIsort       (* names of one from-import statement: ordered by isort's stable key sort *)
| SkRaw         (* iteration order reaches emitted text unchanged *)
| SkErrorText   (* reaches only the text of an exception / warning, no generated file *)
| SkInput       (* ambient input that the property holds fixed (cwd) or excludes (timestamp comment) *)
| SkPureText    (* a formatter that is a function of its text argument alone (black, autoflake; isort without source paths) *)
| SkConstant    (* interpreter-lifetime container / shared AST node that no generation mutates (runtime fingerprint
                   of the module state before/after every generation of the cross-project sequences) *)
| SkCarried     (* interpreter-lifetime state that a generation writes and a later one reads (a cache, a memo, a
                   mutated module-level container).  No row may have it. *)
| SkReadInput   (* file-system read of an INPUT (configuration, schema/query files, files to copy, the config lookup) *)
| SkWriteTarget (* mkdir / write_text into the target: writes, never reads *)
| SkTargetExists(* the existence test of the target package directory before mkdir: see generate_into *)
| SkReadTarget  (* a read of what a previous generation left in the target.  No row may have it. *)
| SkFsSections  (* isort with source paths (the default configuration): section placement consults the filesystem
                   below cwd.  No row may have it. *).

Record site := {
  s_file : string; s_fn : string; s_ctx : string; s_expr : string; s_sink : sink; s_note : string
}.
Definition St (f fn ctx e : string) (k : sink) (note : string) : site :=
  {| s_file := f; s_fn := fn; s_ctx := ctx; s_expr := e; s_sink := k; s_note := note |}.

Definition sink_name (k : sink) : string :=
  match k with
  | SkNone => "none" | SkSorted => "sorted" | SkMember => "member" | SkIsort => "isort"
  | SkRaw => "raw" | SkErrorText => "errortext" | SkInput => "input"
  | SkPureText => "puretext" | SkFsSections => "fs-sections"
  | SkConstant => "constant" | SkCarried => "carried"
  | SkReadInput => "read-input" | SkWriteTarget => "write-target" | SkTargetExists => "target-exists"
  | SkReadTarget => "read-target"
  end.

(* what an observer of the emitted text can learn from one iteration [xs] of the set, per sink;
   [probe] is the element a membership test asks about *)
Definition observe (k : sink) (xs : list string) (probe : string) : list string :=
  match k with
  | SkNone => []
  | SkSorted => str_sort xs
  | SkMember => (if mem_s probe xs then [probe] else []) ++ repeat "" (List.length xs)
  | SkIsort => isort_names xs
  | SkRaw => xs
  | SkErrorText => []
  | SkInput => []
  | SkPureText => []
  | SkFsSections => []
  | SkConstant => []
  | SkCarried => []
  | SkReadInput => [] | SkWriteTarget => [] | SkTargetExists => [] | SkReadTarget => []
  end.
(* sinks whose observation can depend on the iteration order *)
Definition order_sensitive (k : sink) : bool :=
  match k with SkRaw | SkIsort => true | _ => false end.

(* sinks whose observation can depend on the ENVIRONMENT (what exists below cwd), and what is observed there *)
Definition env_sensitive (k : sink) : bool := match k with SkFsSections => true | _ => false end.
Definition observe_env (k : sink) (stdlib : list string) (env : ienv) (imps : list (nat * string)) : list (list string) :=
  match k with
  | SkFsSections => layout_default stdlib env imps
  | SkPureText => layout stdlib env imps
  | _ => []
  end.

(* sinks through which one generation can influence a later one of the same interpreter, and what the later
   one observes of the history: with SkConstant the state it finds is the initial one, with SkCarried it is
   whatever the earlier generations left *)
Definition history_sensitive (k : sink) : bool := match k with SkCarried => true | _ => false end.
Definition observe_history {St : Type} (k : sink) (initial : St) (step : St -> St) (n_earlier : nat) : St :=
  match k with
  | SkCarried => Nat.iter n_earlier step initial
  | _ => initial
  end.

(* ------------------------------------------------------------------ the target directory as the generator meets it *)
(* PackageGenerator.generate:  if not self.package_path.exists(): self.package_path.mkdir()  — then every file is
   written with write_text.  The target is absent, a file, or a directory with content; mkdir() has no
   parents=True (FileNotFoundError when the parent is missing); exists() is true for a FILE too, then the first
   write fails (NotADirectoryError). *)
Inductive tstate := TAbsent | TFile | TDir (fs : fsmap).
Inductive gen_result := GenOk (t : tstate) | GenErr (e : string).
Definition generate_into (parent_ok : bool) (p : list (string * string)) (t : tstate) : gen_result :=
  match t with
  | TDir fs => GenOk (TDir (write_all p fs))
  | TAbsent => if parent_ok then GenOk (TDir (write_all p [])) else GenErr "FileNotFoundError"
  | TFile => match p with [] => GenOk TFile | _ => GenErr "NotADirectoryError" end
  end.
(* what a site of the given sink learns about the target a previous generation left *)
Definition target_sensitive (k : sink) : bool := match k with SkReadTarget => true | _ => false end.
Definition observe_target (k : sink) (t : tstate) : list (string * string) :=
  match k, t with
  | SkReadTarget, TDir fs => fs
  | SkTargetExists, TAbsent => []
  | SkTargetExists, _ => [("<exists>", "")]
  | _, _ => []
  end.

Definition cg := "client_generators/".
Local Arguments St : simpl never.

Definition site_table : list site := [
  St "client_generators/arguments.py" "ArgumentsGenerator._get_reserved_argument_names" "construct"
    "{'self', KWARGS_NAMES, 'gql', UNSET_NAME}" SkNone "";
  St "client_generators/arguments.py" "ArgumentsGenerator.generate" "member" "used_names" SkMember "";
  St "client_generators/client.py" "ClientGenerator.get_variable_names" "construct" "set((arg.arg for arg in arguments.args))" SkNone "";
  St "client_generators/client.py" "ClientGenerator.get_variable_names" "member" "argument_names" SkMember "";
  St "client_generators/comments.py" "get_timestamp_comment" "ambient" "datetime.now()" SkInput
    "timestamp comment mode is excluded by the property";
  St "client_generators/custom_fields.py" "CustomFieldsGenerator._generate_class_def_body" "construct" "set()" SkNone "";
  St "client_generators/custom_fields.py" "CustomFieldsGenerator._generate_class_def_body" "sorted" "additional_fields_typing" SkSorted "";
  St "client_generators/custom_fields.py" "CustomFieldsGenerator._generate_fields_method" "iter" "additional_fields_typing" SkSorted
    "parameter: the only caller passes sorted(additional_fields_typing)";
  St "client_generators/custom_fields.py" "CustomFieldsGenerator._generate_fields_method" "size" "additional_fields_typing" SkMember "";
  St "client_generators/custom_generator_utils.py" "TypeCollector.__init__" "construct" "set()" SkNone "";
  St "client_generators/custom_generator_utils.py" "TypeCollector._collect_dependent_types" "member" "self.visited_types" SkMember "";
  St "client_generators/custom_generator_utils.py" "TypeCollector.collect" "sorted" "self.collected_types" SkSorted "";
  St "client_generators/fragments.py" "FragmentsGenerator.__init__" "construct" "set(self.fragments_definitions.keys())" SkNone "";
  St "client_generators/fragments.py" "FragmentsGenerator._get_sorted_fragments_names" "construct" "set()" SkNone "";
  St "client_generators/fragments.py" "FragmentsGenerator._get_sorted_fragments_names" "sorted" "fragments_names" SkSorted "";
  St "client_generators/fragments.py" "FragmentsGenerator._get_sorted_fragments_names.visit" "sorted" "dependencies_dict[name]" SkSorted
    "since 93e79d6 (frag_module_order)";
  St "client_generators/fragments.py" "FragmentsGenerator._get_sorted_fragments_names.visit" "member" "visited" SkMember "";
  St "client_generators/fragments.py" "FragmentsGenerator.generate" "construct" "set()" SkNone "";
  St "client_generators/fragments.py" "FragmentsGenerator.generate" "member" "self._fragments_names" SkMember "";
  St "client_generators/fragments.py" "FragmentsGenerator.generate" "sorted" "dependencies_dict[name]" SkSorted "";
  St "client_generators/fragments.py" "FragmentsGenerator.generate" "sorted" "self._fragments_names" SkSorted "";
  St "client_generators/input_types.py" "InputTypesGenerator._filter_class_defs" "construct" "set()" SkNone "";
  St "client_generators/input_types.py" "InputTypesGenerator._filter_class_defs" "member" "types_names" SkMember "";
  St "client_generators/input_types.py" "InputTypesGenerator._get_dependencies_of_type" "construct" "set()" SkNone "";
  St "client_generators/input_types.py" "InputTypesGenerator._get_dependencies_of_type.dfs" "member" "visited" SkMember "";
  St "client_generators/package.py" "PackageGenerator.__init__" "construct" "set()" SkNone "";
  St "client_generators/package.py" "PackageGenerator._generate_fragments" "construct" "set(self.fragments_definitions.keys())" SkNone "";
  St "client_generators/package.py" "PackageGenerator._generate_fragments" "size"
    "set(self.fragments_definitions.keys()).difference(exclude_names)" SkMember "";
  St "client_generators/package.py" "PackageGenerator._validate_unique_file_names" "construct" "set()" SkNone "";
  St "client_generators/package.py" "PackageGenerator._validate_unique_file_names" "construct" "set(file_names)" SkNone "";
  St "client_generators/package.py" "PackageGenerator._validate_unique_file_names" "construct"
    "{n for n in file_names if n in seen or seen.add(n)}" SkNone "";
  St "client_generators/package.py" "PackageGenerator._validate_unique_file_names" "iter:join" "duplicated_files" SkErrorText
    "ParsingError message lists duplicated file names in set order; raised before anything is written";
  St "client_generators/package.py" "PackageGenerator._validate_unique_file_names" "member" "seen" SkMember "";
  St "client_generators/package.py" "PackageGenerator._validate_unique_file_names" "size" "set(file_names)" SkMember "";
  St "client_generators/result_types.py" "ResultTypesGenerator.__init__" "construct" "set()" SkNone "";
  St "client_generators/result_types.py" "ResultTypesGenerator._add_enums_scalars_fragments_imports" "sorted"
    "self._fragments_used_as_mixins" SkSorted "since 93e79d6 (op_import_names)";
  St "client_generators/result_types.py" "ResultTypesGenerator._add_enums_scalars_fragments_imports" "size"
    "isinstance(self.operation_definition, OperationDefinitionNode) and self._fragments_used_as_mixins and self.fragments_module_name" SkMember "";
  St "client_generators/result_types.py" "ResultTypesGenerator._add_enums_scalars_fragments_imports" "size"
    "self._fragments_used_as_mixins" SkMember "";
  St "client_generators/result_types.py" "ResultTypesGenerator._add_typename_field_to_selections" "construct"
    "{f.name.value for f in resolved_fields}" SkNone "";
  St "client_generators/result_types.py" "ResultTypesGenerator._add_typename_field_to_selections" "member" "field_names" SkMember "";
  St "client_generators/result_types.py" "ResultTypesGenerator._get_fragments_names" "construct" "set()" SkNone "";
  St "client_generators/result_types.py" "ResultTypesGenerator._get_fragment_bases" "construct" "set(bases)" SkNone "";
  St "client_generators/result_types.py" "ResultTypesGenerator._get_fragment_bases" "construct" "set(self._unpacked_fragments)" SkNone "";
  St "client_generators/result_types.py" "ResultTypesGenerator._get_fragment_bases" "iter" "bases" SkMember
    "the loop only unions into the result set";
  St "client_generators/result_types.py" "ResultTypesGenerator._remove_inherited_fragments" "construct" "set()" SkNone "";
  St "client_generators/result_types.py" "ResultTypesGenerator._remove_inherited_fragments" "iter" "fragments" SkMember
    "the loop only unions into a set that is subtracted";
  St "client_generators/result_types.py" "ResultTypesGenerator._parse_type_definition" "arg" "fragments" SkMember
    "flows into _remove_inherited_fragments (set algebra only)";
  St "client_generators/result_types.py" "ResultTypesGenerator._parse_type_definition" "sorted"
    "self._remove_inherited_fragments(fragments)" SkSorted "class_bases (since 959c464)";
  St "client_generators/result_types.py" "ResultTypesGenerator._get_inline_fragment_root_type" "construct"
    "{interface.name for interface in type_.interfaces}" SkNone "";
  St "client_generators/result_types.py" "ResultTypesGenerator._get_inline_fragment_root_type" "member"
    "{interface.name for interface in type_.interfaces}" SkMember "";
  St "client_generators/result_types.py" "ResultTypesGenerator._get_typename_values" "construct" "set(possible_types_names)" SkNone "";
  St "client_generators/result_types.py" "ResultTypesGenerator._get_typename_values" "construct" "set(types_names)" SkNone "";
  St "client_generators/result_types.py" "ResultTypesGenerator._get_typename_values" "iter:list"
    "set(possible_types_names) - set(types_names)" SkSorted
    "the list only reaches generate_typename_annotation, which sorts it (typename_literal)";
  St "client_generators/result_types.py" "ResultTypesGenerator._parse_type_definition" "size" "fragments" SkMember "";
  St "client_generators/result_types.py" "ResultTypesGenerator._resolve_selection_set" "construct" "set()" SkNone "";
  St "client_generators/result_types.py" "ResultTypesGenerator._resolve_selection_set" "construct" "set(fragments)" SkNone "";
  St "client_generators/result_types.py" "ResultTypesGenerator.get_operation_as_str" "sorted" "self._get_all_related_fragments()" SkSorted
    "related_fragments";
  St "config.py" "get_client_settings" "construct" "{f.name for f in fields(ClientSettings)}" SkNone "";
  St "config.py" "get_client_settings" "iter:join" "missing_fields" SkErrorText
    "missing_fields is a list comprehension (the scan infers by name); exception text only";
  St "config.py" "get_client_settings" "member" "settings_fields_names" SkMember "";
  St "config.py" "get_config_file_path" "ambient" "Path.cwd()" SkInput "where pyproject.toml is looked up";
  St "config.py" "get_graphql_schema_settings" "construct" "{f.name for f in fields(GraphQLSchemaSettings)}" SkNone "";
  St "config.py" "get_graphql_schema_settings" "iter:join" "missing_fields" SkErrorText "as in get_client_settings";
  St "config.py" "get_graphql_schema_settings" "member" "settings_fields_names" SkMember "";
  St "contrib/client_forward_refs.py" "ClientForwardRefsPlugin.__init__" "construct" "set()" SkNone "";
  St "contrib/client_forward_refs.py" "ClientForwardRefsPlugin._add_forward_ref_imports" "sorted" "self.input_and_return_types" SkSorted
    "since 93e79d6";
  St "contrib/client_forward_refs.py" "ClientForwardRefsPlugin._update_existing_imports" "member" "return_types_not_used_as_input" SkMember "";
  St "contrib/client_forward_refs.py" "ClientForwardRefsPlugin._update_imports" "arg" "return_types_not_used_as_input" SkMember
    "flows into _update_existing_imports, which only tests membership";
  St "contrib/client_forward_refs.py" "ClientForwardRefsPlugin._update_imports" "construct" "set(self.input_and_return_types)" SkNone "";
  St "contrib/client_forward_refs.py" "ClientForwardRefsPlugin._update_imports" "size" "return_types_not_used_as_input" SkMember "";
  St "contrib/shorter_results.py" "ShorterResultsPlugin._update_imports" "construct" "set()" SkNone "";
  St "contrib/shorter_results.py" "ShorterResultsPlugin.generate_client_module" "sorted" "self.extended_imports[stmt.module]" SkSorted
    "since 93e79d6";
  St "contrib/shorter_results.py" "ShorterResultsPlugin.generate_client_module" "sorted" "alias" SkSorted "since 93e79d6";
  St "graphql_schema_generators/constants.py" "<module>" "construct"
    "frozenset(GRAPHQL_IMPORTS + TYPE_MAP_IMPORTS + TYPING_IMPORTS)" SkNone "";
  St "settings.py" "assert_name_is_not_reserved_in_schema_module" "member" "RESERVED_VARIABLE_NAMES" SkMember "";
  St "schema.py" "add_mixin_directive_to_schema" "construct" "{d.name for d in schema.directives}" SkNone "";
  St "schema.py" "add_mixin_directive_to_schema" "member" "{d.name for d in schema.directives}" SkMember "";
  St "schema.py" "load_graphql_files_from_path" "sorted" "walk_graphql_files(path)" SkSorted "load_dir";
  St "schema.py" "walk_graphql_files" "iter" "path.glob('**/*')" SkSorted
    "a generator: yields in listing order, the only caller sorts the paths (load_dir)";
  St "schema.py" "walk_graphql_files" "listing" "path.glob('**/*')" SkSorted
    "the only caller sorts the paths (load_dir)";
  St "settings.py" "ClientSettings" "ambient" "Path.cwd()" SkInput "default target_package_path";
  St "utils.py" "<module>" "formatter" "ISORT_CONFIG = isort.Config(src_paths=())" SkPureText
    "what makes isort a function of its text: no source path";
  St "utils.py" "ast_to_str" "formatter" "fix_code(code, remove_all_unused_imports=True)" SkPureText "autoflake";
  St "utils.py" "ast_to_str" "formatter" "isort.code(code, config=ISORT_CONFIG)" SkPureText
    "since f6e5e03: Config(src_paths=()) (layout)";
  St "utils.py" "ast_to_str" "formatter" "format_str(isort.code(code, config=ISORT_CONFIG), mode=Mode())" SkPureText "black";
  St "contrib/extract_operations.py" "ExtractOperationsPlugin._module_to_str" "formatter"
    "isort.code(code_with_formatted_strings, config=ISORT_CONFIG)" SkPureText "since f6e5e03";
  St "contrib/extract_operations.py" "ExtractOperationsPlugin._module_to_str" "formatter"
    "format_str(isort.code(code_with_formatted_strings, config=ISORT_CONFIG), mode=Mode())" SkPureText "black";
  St "client_generators/constants.py" "<module>" "state:module" "BASE_MODEL_IMPORT = ast" SkConstant "";
  St "client_generators/constants.py" "<module>" "state:module" "GRAPHQL_CLIENT_EXCEPTIONS_NAMES = list" SkConstant "";
  St "client_generators/constants.py" "<module>" "state:module" "INPUT_SCALARS_MAP = dict" SkConstant "";
  St "client_generators/constants.py" "<module>" "state:module" "SIMPLE_TYPE_MAP = dict" SkConstant "";
  St "client_generators/constants.py" "<module>" "state:module" "UNSET_IMPORT = ast" SkConstant
    "shared import node: ClientForwardRefsPlugin copies it since be644af";
  St "client_generators/constants.py" "<module>" "state:module" "UPLOAD_IMPORT = ast" SkConstant "";
  St "graphql_schema_generators/constants.py" "<module>" "state:module" "STANDARD_SCALARS = dict" SkConstant "";
  St "utils.py" "<module>" "state:module" "PYDANTIC_RESERVED_FIELD_NAMES = list" SkConstant "";
  St "client_generators/package.py" "PackageGenerator._copy_files" "fs" "source_path.read_text(...)" SkReadInput "";
  St "client_generators/package.py" "PackageGenerator._copy_files" "fs" "target_path.write_text(...)" SkWriteTarget "";
  St "client_generators/package.py" "PackageGenerator._generate_client" "fs" "client_file_path.write_text(...)" SkWriteTarget "";
  St "client_generators/package.py" "PackageGenerator._generate_custom_fields" "fs" "file_path.write_text(...)" SkWriteTarget "";
  St "client_generators/package.py" "PackageGenerator._generate_custom_fields_typing" "fs" "file_path.write_text(...)" SkWriteTarget "";
  St "client_generators/package.py" "PackageGenerator._generate_custom_mutations" "fs" "file_path.write_text(...)" SkWriteTarget "";
  St "client_generators/package.py" "PackageGenerator._generate_custom_queries" "fs" "file_path.write_text(...)" SkWriteTarget "";
  St "client_generators/package.py" "PackageGenerator._generate_enums" "fs" "enums_file_path.write_text(...)" SkWriteTarget "";
  St "client_generators/package.py" "PackageGenerator._generate_fragments" "fs" "file_path.write_text(...)" SkWriteTarget "";
  St "client_generators/package.py" "PackageGenerator._generate_init" "fs" "init_file_path.write_text(...)" SkWriteTarget "";
  St "client_generators/package.py" "PackageGenerator._generate_input_types" "fs" "input_types_file_path.write_text(...)" SkWriteTarget "";
  St "client_generators/package.py" "PackageGenerator._generate_result_types" "fs" "file_path.write_text(...)" SkWriteTarget "";
  St "client_generators/package.py" "PackageGenerator.generate" "fs" "self.package_path.exists(...)" SkTargetExists "the one thing the generator learns about the target: whether it exists (generate_into)";
  St "client_generators/package.py" "PackageGenerator.generate" "fs" "self.package_path.mkdir(...)" SkWriteTarget "";
  St "config.py" "get_config_file_path" "fs" "directory.joinpath(file_name).exists(...)" SkReadInput "";
  St "contrib/extract_operations.py" "ExtractOperationsPlugin._generate_operations_module" "fs" "operations_path.write_text(...)" SkWriteTarget "";
  St "graphql_schema_generators/schema.py" "generate_graphql_schema_graphql_file" "fs" "Path(target_file_path).write_text(...)" SkWriteTarget "";
  St "graphql_schema_generators/schema.py" "generate_graphql_schema_python_file" "fs" "Path(target_file_path).write_text(...)" SkWriteTarget "";
  St "schema.py" "load_graphql_files_from_path" "fs" "path.is_dir(...)" SkReadInput "";
  St "schema.py" "read_graphql_file" "fs" "open(...)" SkReadInput "";
  St "schema.py" "walk_graphql_files" "fs" "file_.is_file(...)" SkReadInput "";
  St "settings.py" "assert_class_is_defined_in_file" "fs" "file_path.read_text(...)" SkReadInput "";
  St "settings.py" "assert_path_exists" "fs" "Path(path).exists(...)" SkReadInput "";
  St "settings.py" "assert_path_is_valid_directory" "fs" "Path(path).is_dir(...)" SkReadInput "";
  St "settings.py" "assert_path_is_valid_file" "fs" "Path(path).is_file(...)" SkReadInput "";
  St "utils.py" "process_name" "construct" "set(name)" SkNone "";
  St "utils.py" "process_name" "construct" "{'_'}" SkNone "";
  St "utils.py" "process_name" "eq" "set(name)" SkMember "";
  St "utils.py" "process_name" "eq" "{'_'}" SkMember "";
  St "client_generators/client.py" "ClientGenerator.get_variable_names" "construct"
    "{self._gql_func_name}" SkNone "names the method body calls (6bef770): membership only";
  St "client_generators/client.py" "ClientGenerator.get_variable_names" "member"
    "called_names" SkMember "names the method body calls (6bef770): membership only";
  St "client_generators/input_types.py" "InputTypesGenerator._parse_input_definition" "construct"
    "set()" SkNone "Python names already used in the input class (bec4417): membership only";
  St "client_generators/input_types.py" "InputTypesGenerator._parse_input_definition" "member"
    "used_names" SkMember "Python names already used in the input class (bec4417): membership only";
  St "client_generators/result_fields.py" "parse_interface_type" "construct"
    "{f.type_condition.name.value for f in inline_fragments + fragments_on_subtypes if f.type_condition.name.value not in own_interfaces}" SkNone "interfaces the position's type implements (568dfd8)";
  St "client_generators/result_fields.py" "parse_interface_type" "construct"
    "{interface.name for interface in type_.interfaces}" SkNone "interfaces the position's type implements (568dfd8)";
  St "client_generators/result_fields.py" "parse_interface_type" "member"
    "own_interfaces" SkMember "interfaces the position's type implements (568dfd8)";
  St "client_generators/result_fields.py" "parse_interface_type" "sorted"
    "{f.type_condition.name.value for f in inline_fragments + fragments_on_subtypes if f.type_condition.name.value not in own_interfaces}" SkSorted "interfaces the position's type implements (568dfd8)"
].

(* Rows whose sink the scan's intra-procedural data-flow cannot derive (the value escapes the function): the
   DOWNSTREAM expression that erases the order.  The scan must find it, verbatim, in the named function. *)
Definition downstream : list ((string * string * string * string) * (string * string * string)) := [
  (("client_generators/result_types.py", "ResultTypesGenerator._get_typename_values", "iter:list",
    "set(possible_types_names) - set(types_names)"),
   ("client_generators/result_fields.py", "generate_typename_annotation", "sorted(typename_values)"))
].

(* ------------------------------------------------------------------ sexp interface *)
Definition dStrs (e : sexp) : option (list string) := dList dStr e.
Definition dNats (e : sexp) : option (list nat) := dList dNat e.
Definition dPair {X Y} (f : sexp -> option X) (g : sexp -> option Y) (e : sexp) : option (X * Y) :=
  match e with
  | L [a; b] => match f a, g b with Some x, Some y => Some (x, y) | _, _ => None end
  | _ => None
  end.
Definition sStrs (l : list string) : sexp := L (map A l).

Definition run_nondet (e : sexp) : sexp :=
  match e with
  | L [A "sort"; l] => match dStrs l with Some xs => sStrs (str_sort xs) | None => sErr "sort" end
  | L [A "pathsort"; l] =>
      match dList dStrs l with Some ps => L (map sStrs (path_sort ps)) | None => sErr "pathsort" end
  | L [A "isortnames"; l] => match dStrs l with Some xs => sStrs (isort_names xs) | None => sErr "isortnames" end
  | L [A "isortkey"; A s] => A (isort_key s)
  | L [A "permute"; c; l] =>
      match dNats c, dStrs l with Some code, Some xs => sStrs (permute code xs) | _, _ => sErr "permute" end
  | L [A "suffixok"; l] => match dStrs l with Some p => sB (gql_ext p) | None => sErr "suffixok" end
  | L [A "load"; c; fs] =>
      match dNats c, dList (dPair dStrs dStr) fs with
      | Some code, Some files => L (map (fun f => sStrs (fst f)) (load_dir code files))
      | _, _ => sErr "load" end
  | L [A "typename"; c; A abs; tn; ps] =>
      match dNats c, dStrs tn, dStrs ps with
      | Some code, Some t, Some p => sStrs (typename_literal code abs t p)
      | _, _, _ => sErr "typename" end
  | L [A "opimports"; c; l] =>
      match dNats c, dStrs l with
      | Some code, Some xs => sStrs (op_import_names code xs)
      | _, _ => sErr "opimports" end
  | L [A "bases"; c; l] =>
      match dNats c, dStrs l with Some code, Some xs => sStrs (class_bases code xs) | _, _ => sErr "bases" end
  | L [A "fragorder"; defs; mix; excl; oc] =>
      match dStrs defs, dList (dPair dStr dStrs) mix, dStrs excl, dList (dPair dStr dNats) oc with
      | Some d, Some m, Some x, Some o =>
          match frag_module_order (orc_of o) {| fi_defs := d; fi_mix := m; fi_excl := x |} with
          | Some (processed, order) => L [sStrs processed; sStrs order]
          | None => sErr "fuel"
          end
      | _, _, _, _ => sErr "fragorder" end
  | L [A "writeall"; p; fs] =>
      match dList (dPair dStr dStr) p, dList (dPair dStr dStr) fs with
      | Some pp, Some f => L (map (fun x => L [A (fst x); A (snd x)]) (write_all pp f))
      | _, _ => sErr "writeall" end
  | L [A "procstate"; hist; st] =>
      match dList (dPair dB dStrs) hist, dList (dPair dStr dStrs) st with
      | Some h, Some s0 =>
          L ((fix go (h : list (bool * list string)) (st : pstate) : list sexp :=
                match h with
                | [] => []
                | x :: r =>
                    let '((imps, moved), st') := gen_client_imports (fst x) (snd x) st in
                    L [L (map (fun p => L [A (fst p); sStrs (snd p)]) imps); sStrs moved] :: go r st'
                end) h s0)
      | _, _ => sErr "procstate" end
  | L [A "stinitial"] => L (map (fun p => L [A (fst p); sStrs (snd p)]) st_initial)
  | L [A "downstream"] =>
      L (map (fun d => let '((f, fn, c, e), (f2, fn2, e2)) := d in
                       L [L [A f; A fn; A c; A e]; L [A f2; A fn2; A e2]]) downstream)
  | L [A "sites"] =>
      L (map (fun s => L [A (s_file s); A (s_fn s); A (s_ctx s); A (s_expr s); A (sink_name (s_sink s));
                          sB (order_sensitive (s_sink s) || env_sensitive (s_sink s) || history_sensitive (s_sink s) || target_sensitive (s_sink s)); A (s_note s)]) site_table)
  | L [A "generateinto"; pk; p; A st; fs] =>
      match dB pk, dList (dPair dStr dStr) p, dList (dPair dStr dStr) fs with
      | Some parent_ok, Some pp, Some f =>
          let t := if String.eqb st "absent" then TAbsent else if String.eqb st "file" then TFile else TDir f in
          match generate_into parent_ok pp t with
          | GenErr e => L [A "err"; A e]
          | GenOk TAbsent => L [A "ok"; A "absent"]
          | GenOk TFile => L [A "ok"; A "file"]
          | GenOk (TDir r) => L [A "ok"; L (map (fun x => L [A (fst x); A (snd x)]) r)]
          end
      | _, _, _ => sErr "generateinto" end
  | L [A "layout"; sl; cwd; A target; rg; early; imps] =>
      match dStrs sl, dStrs cwd, dB rg, dStrs early, dList (dPair dNat dStr) imps with
      | Some stdlib, Some c, Some regen, Some ea, Some is =>
          L (map sStrs (layout stdlib (gen_env c target regen ea) is))
      | _, _, _, _, _ => sErr "layout" end
  | _ => sErr "nondet: bad command"
  end.
