(* Command dispatcher of the C06 engine (input models): generator model, specification and Python-side
   semantics behind one S-expression interface.  Definitions only. *)
From Coq Require Import List String Ascii ZArith Bool.
From AC Require Import Base.Sexp Base.Json Base.Strs Gql.InSchema Gql.InCoerce
  Model.Names Model.Defaults Model.Inputs Py.PyEval.
Import ListNotations.
Local Open Scope string_scope.

Definition FUEL : nat := 64.

Definition res_to_sexp (r : res pyval) : sexp :=
  match r with
  | Ok v => L [A "ok"; sOpt json_to_sexp (dump v)]
  | Err e => L [A "err"; pyerr_to_sexp e]
  end.

Definition field_default_status (E : env) (f : pfield) : sexp :=
  L [A (p_name f); A (wire_of f);
     match rhs_default (p_value f) with
     | DRequired => A "required"
     | DValue e => L [A "value"; res_to_sexp (eval FUEL E e)]
     | DFactory e => L [A "factory"; res_to_sexp (eval FUEL E e)]
     end].

Definition guards_of_type (s : schema) (cs : customs) (snake : bool) (d : string * tdef) : list sexp :=
  match snd d with
  | DInput fs =>
      [L [A (fst d); sB (names_ok_fields snake fs)]]
  | _ => []
  end.

Definition with_ctx (sch cu sn : sexp) (k : schema -> customs -> bool -> sexp) : sexp :=
  match schema_of_sexp sch, customs_of_sexp cu, dB sn with
  | Some s, Some cs, Some snake => k s cs snake
  | None, _, _ => sErr "schema"
  | _, None, _ => sErr "customs"
  | _, _, None => sErr "snake"
  end.

Definition run_inputs (e : sexp) : sexp :=
  match e with
  | L [A "module"; sch; cu; sn] =>
      with_ctx sch cu sn (fun s cs snake =>
        let cl := gen_classes s cs snake in
        L [sList pclass_to_sexp cl; sList A (rebuild_calls cl); sList A (used_enums s cs)])
  | L [A "guards"; sch; cu; sn] =>
      with_ctx sch cu sn (fun s cs snake => L (flat_map (guards_of_type s cs snake) s))
  | L [A "ann"; sch; cu; t] =>
      match schema_of_sexp sch, customs_of_sexp cu, gtype_of_sexp t with
      | Some s, Some cs, Some t' =>
          L [ann_to_sexp (fst (parse_input_field_type s cs t' true)); ann_to_sexp (image s cs t' true)]
      | _, _, _ => sErr "ann args"
      end
  | L [A "coerce"; sch; t; j] =>
      match schema_of_sexp sch, gtype_of_sexp t, json_of_sexp j with
      | Some s, Some t', Some j' => sOpt cvalue_to_sexp (coerce_input FUEL s t' j')
      | _, _, _ => sErr "coerce args"
      end
  | L [A "default"; sch; t; lit] =>
      match schema_of_sexp sch, gtype_of_sexp t, cvalue_of_sexp lit with
      | Some s, Some t', Some l' => sOpt cvalue_to_sexp (coerced_default FUEL s t' l')
      | _, _, _ => sErr "default args"
      end
  | L [A "validate"; sch; cu; sn; t; j] =>
      with_ctx sch cu sn (fun s cs snake =>
        match gtype_of_sexp t, json_of_sexp j with
        | Some t', Some j' =>
            let E := env_of s cs snake in
            let a := fst (parse_input_field_type s cs t' true) in
            L [res_to_sexp (validate FUEL E a j'); sB (accepts FUEL E a j')]
        | _, _ => sErr "validate args"
        end)
  | L [A "rename"; sch; sn; t; j] =>
      match schema_of_sexp sch, dB sn, gtype_of_sexp t, json_of_sexp j with
      | Some s, Some snake, Some t', Some j' => json_to_sexp (rename FUEL s snake t' j')
      | _, _, _, _ => sErr "rename args"
      end
  | L [A "field_defaults"; sch; cu; sn; A ty] =>
      with_ctx sch cu sn (fun s cs snake =>
        let E := env_of s cs snake in
        match find_class ty (e_classes E) with
        | Some cl => L (map (field_default_status E) (effective (c_fields cl)))
        | None => sErr "no such class"
        end)
  | L [A "canon"; sch; t; j] =>
      match schema_of_sexp sch, gtype_of_sexp t, json_of_sexp j with
      | Some s, Some t', Some j' => sB (canon s j' t')
      | _, _, _ => sErr "canon args"
      end
  | L [A "member_name"; A v] => A (member_name v)
  | L [A "tables"] =>
      (* the constants the model hard-wires, printed so that the harness can compare them with
         ariadne_codegen/client_generators/constants.py and dependencies/base_model.py on every run *)
      let s := [("Upload", DScalar)] in
      L [L (map (fun n => L [A n; ann_to_sexp (fst (leaf s [] n))])
              ["String"; "ID"; "Int"; "Boolean"; "Float"; "Upload"]);
         ann_to_sexp (AOpt (AList AAny));
         pyexpr_to_sexp (const_value_node "T" (CObj []) false false);
         pyexpr_to_sexp (process_field_value (Some (PConst PNone)) "a");
         L [A "populate_by_name"; A "t"]]
  | _ => sErr "inputs: bad command"
  end.
