(* C08 — fragments and mixins as reusable base types.  Executable definitions only.

   Mirrors (ariadne_codegen/client_generators):
     result_types.py  _unpack_fragment                      unpack_fragment
                      _get_inline_fragment_root_type        inline_root
                      _resolve_selection_set                resolve  (mixin / unpack / drop decision)
                      _parse_type_definition (+ _parse_field_selection_set_types, the _public_names
                      skip, class bases, @mixin extra bases)  ptd     (class SKELETONS: name, type, bases)
                      _get_extra_bases_from_mixin_directives extra_bases / mixin imports
     result_fields.py parse_interface_type / parse_union_type / parse_object_type: which classes a
                      composite field gets                  related
     fragments.py     FragmentsGenerator.generate (worklist added by the F11 fix)   work
                      _get_sorted_fragments_names (DFS post-order over sorted names, dependency SETS
                      iterated in an arbitrary order = oracle)                       toposort
     package.py       exclude_names = unpacked - used_as_mixins; module skipped when nothing is left
   Annotations, field defaults, typename literals are NOT modelled here (C01/C05). *)
From Coq Require Import List String Ascii Bool Arith.
From AC Require Import Base.Strs Base.Sexp Model.Names Model.Prune.
Import ListNotations.

(* ---- strings: Python's sorted() on ASCII names, set -> sorted list ---- *)
Fixpoint sleb (a b : string) : bool :=
  match a, b with
  | EmptyString, _ => true
  | String _ _, EmptyString => false
  | String x a', String y b' =>
      if nat_of_ascii x <? nat_of_ascii y then true
      else if nat_of_ascii y <? nat_of_ascii x then false
      else sleb a' b'
  end.

Fixpoint insert (x : string) (l : list string) : list string :=
  match l with
  | [] => [x]
  | y :: r => if sleb x y then x :: l else y :: insert x r
  end.
Definition isort (l : list string) : list string := fold_right insert [] l.
Definition sort_uniq (l : list string) : list string := isort (nodup string_dec l).

Fixpoint lookup {X} (k : string) (l : list (string * X)) : option X :=
  match l with
  | [] => None
  | (k', v) :: r => if String.eqb k k' then Some v else lookup k r
  end.

Definition pascal_s (s : string) : string := l2s (pascal (s2l s)).
Definition field_flags (snake : bool) : pflags := {| f_snake := snake; f_trim := true; f_reserved := true |}.

(* ---- abstract schema ---- *)
Inductive tkind := KObj (ifaces : list string) | KIface (ifaces : list string)
                 | KUnion (members : list string) | KLeaf.
Record aschema := {
  s_types : list (string * tkind);
  s_fields : list (string * list (string * string))    (* composite type -> field -> NAMED type *)
}.
Definition kind_of (sch : aschema) (t : string) : tkind :=
  match lookup t (s_types sch) with Some k => k | None => KLeaf end.
Definition is_union (sch : aschema) (t : string) : bool :=
  match kind_of sch t with KUnion _ => true | _ => false end.
Definition is_abstract (sch : aschema) (t : string) : bool :=
  match kind_of sch t with KUnion _ | KIface _ => true | _ => false end.
Definition ifaces_of (sch : aschema) (t : string) : list string :=
  match kind_of sch t with KObj i | KIface i => i | _ => [] end.
(* graphql-core GraphQLSchema.is_sub_type(abstract_type, maybe_sub_type) *)
Definition is_sub_type (sch : aschema) (abs t : string) : bool :=
  match kind_of sch abs with
  | KUnion ms => mem t ms
  | KIface _ => mem abs (ifaces_of sch t)
  | _ => false
  end.
Definition field_type (sch : aschema) (t f : string) : option string :=
  match lookup t (s_fields sch) with Some fs => lookup f fs | None => None end.

(* ---- documents ---- *)
Definition mixin_dir := (string * string)%type.     (* @mixin(from: , import: ) *)
Inductive sel :=
| SField (alias : option string) (name : string) (mixins : list mixin_dir) (sub : list sel)
| SSpread (frag : string) (cond : bool)                 (* cond: carries @skip / @include *)
| SInline (tcond : string) (cond : bool) (sub : list sel).
Record fragdef := { fr_name : string; fr_on : string; fr_mixins : list mixin_dir; fr_sel : list sel }.
Record opdef := { o_name : string; o_root : string; o_mixins : list mixin_dir; o_sel : list sel }.

Definition find_frag (n : string) (frags : list fragdef) : option fragdef :=
  find (fun f => String.eqb (fr_name f) n) frags.
Definition is_inline (s : sel) : bool := match s with SInline _ _ _ => true | _ => false end.

(* _unpack_fragment(fragment_def, root_type_def) *)
Definition unpack_fragment (sch : aschema) (fd : fragdef) (root : option string) : bool :=
  is_union sch (fr_on fd)
  || match root with Some r => negb (String.eqb (fr_on fd) r) | None => false end
  || existsb is_inline (fr_sel fd).

(* _get_inline_fragment_root_type(selection_value, root_type) *)
Definition inline_root (sch : aschema) (tc root : string) : option string :=
  match lookup root (s_types sch) with
  | None => None
  | Some k =>
      if (match k with KObj i | KIface i => mem tc i | _ => false end) then Some tc   (* /repo 568dfd8 *)
      else if String.eqb tc root then Some root else None
  end.

(* _resolve_selection_set: (fields, fragments used as bases, unpacked fragments so far).
   under = the `conditions` argument of /repo e47d9e8 is non-empty: the selection set lies inside an inline
   fragment or fragment spread carrying @skip/@include.  A spread under a condition (its own directive or an
   enclosing container's) is NEVER used as a base class - it is unpacked (or dropped).  The decision is the
   same expression as in Model/Results.v resolve_step; this copy also returns the unpacked names, which the
   package-level exclusion rule needs and Results.v does not track.
   fuel bounds list position + nesting + fragment chains; None = out of fuel / unknown fragment *)
Fixpoint resolve (fuel : nat) (sch : aschema) (frags : list fragdef) (under : bool) (ss : list sel)
                 (root : string) (unp : list string) : option (list sel * list string * list string) :=
  match fuel with
  | 0 => None
  | S f =>
      match ss with
      | [] => Some ([], [], unp)
      | s :: rest =>
          let r1 :=
            match s with
            | SField _ _ _ _ => Some ([s], [], unp)
            | SSpread fn c =>
                match find_frag fn frags with
                | None => None
                | Some fd =>
                    if negb (under || c) && negb (unpack_fragment sch fd (Some root)) then Some ([], [fn], unp)
                    else if String.eqb (fr_on fd) root
                            || (is_abstract sch (fr_on fd) && is_sub_type sch (fr_on fd) root)
                    then resolve f sch frags (under || c) (fr_sel fd) root (unp ++ [fn])
                    else Some ([], [], unp)
                end
            | SInline tc c sub =>
                match inline_root sch tc root with
                | Some rt => resolve f sch frags (under || c) sub rt unp
                | None => Some ([], [], unp)
                end
            end in
          match r1 with
          | None => None
          | Some (f1, m1, u1) =>
              match resolve f sch frags under rest root u1 with
              | None => None
              | Some (f2, m2, u2) => Some (f1 ++ f2, m1 ++ m2, u2)
              end
          end
      end
  end.

(* result_fields.get_inline_fragments_from_selection_set: type conditions of the inline fragments
   at the top level, looking through spreads *)
Fixpoint inline_conds (fuel : nat) (frags : list fragdef) (ss : list sel) : option (list string) :=
  match fuel with
  | 0 => None
  | S f =>
      match ss with
      | [] => Some []
      | s :: rest =>
          let r1 := match s with
                    | SInline tc _ _ => Some [tc]
                    | SSpread fn _ => match find_frag fn frags with
                                    | Some fd => inline_conds f frags (fr_sel fd)
                                    | None => None end
                    | SField _ _ _ _ => Some []
                    end in
          match r1, inline_conds f frags rest with
          | Some a, Some b => Some (a ++ b)
          | _, _ => None
          end
      end
  end.

(* result_fields.get_fragments_on_subtype (top level spreads only) *)
Definition frags_on_subtype (sch : aschema) (frags : list fragdef) (ss : list sel) (T : string) : list string :=
  flat_map (fun s => match s with
                     | SSpread fn _ => match find_frag fn frags with
                                     | Some fd => if is_sub_type sch T (fr_on fd) then [fr_on fd] else []
                                     | None => [] end
                     | _ => [] end) ss.

(* the classes a composite field of named type T gets: (class name, type name) list, abstract flag *)
Definition related (fuel : nat) (sch : aschema) (frags : list fragdef) (cn T : string) (sub : list sel)
  : option (list (string * string)) :=
  match kind_of sch T with
  | KObj _ => Some [(cn, T)]
  | KIface _ =>
      match inline_conds fuel frags sub with
      | None => None
      | Some ic =>
          let ts := (ic ++ frags_on_subtype sch frags sub T)%list in
          match ts with
          | [] => Some [(cn, T)]
          | _ => (* /repo 568dfd8: conditions on T's own interfaces are not variants *)
                 Some ((cn ++ T, T) :: map (fun ft => (cn ++ ft, ft))
                                           (sort_uniq (filter (fun c => negb (mem c (ifaces_of sch T))) ts)))%string
          end
      end
  | KUnion ms => Some (map (fun m => (cn ++ m, m)%string) ms)
  | KLeaf => Some []
  end.

Record cls := { c_name : string; c_type : string; c_bases : list string;
                c_frags : list string;      (* fragments the resolver returned as bases of this class *)
                c_direct : list string;     (* fragments spread directly and unconditionally in its selection set *)
                c_bfrags : list string;     (* those of c_frags actually listed as bases *)
                c_direct_at : list (string * string) }.  (* direct_at: also inside applicable inline fragments *)

Record st := { st_public : list string; st_mix : list string; st_unp : list string;
               st_imports : list mixin_dir }.
Definition st0 : st := {| st_public := []; st_mix := []; st_unp := []; st_imports := [] |}.

Definition base_model : string := "BaseModel".
Definition typename_field : string := "__typename".
Definition typename_alias : string := "typename__".

Definition field_py_name (snake : bool) (n : string) : string :=
  if String.eqb n typename_field then typename_alias
  else l2s (process_name (field_flags snake) (s2l n)).

(* _get_extra_bases_from_mixin_directives: one import and one extra base per directive *)
Definition extra_bases (dirs : list mixin_dir) : list string := map snd dirs.

(* _remove_inherited_fragments / _get_fragment_bases (fix 959c464).  g = the base graph: fragment ->
   the fragments its OWN selection set resolves to as bases (resolve (fr_sel f) (fr_on f)); the bases a
   fragment class inherits are everything reachable from its successors.  A fragment of `mix` that another
   fragment of `mix` already inherits is not listed as a base again. *)
Definition reach (g : graph) (b : string) : list string :=
  match deps_opt g b with Some l => l | None => [] end.
Definition frag_bases (g : graph) (f : string) : list string := flat_map (reach g) (succs g f).
Definition inherited (g : graph) (mix : list string) : list string := flat_map (frag_bases g) mix.
Definition reduced (g : graph) (mix : list string) : list string :=
  filter (fun f => negb (mem f (inherited g mix))) mix.

Definition class_bases (g : graph) (mix : list string) (extra : list string) : list string :=
  ((match mix with [] => [base_model] | _ => map pascal_s (sort_uniq (reduced g mix)) end) ++ extra)%list.

(* (fragment, type its spread is evaluated for): unconditional spreads at the top level of a selection set
   evaluated for `root`, and inside unconditional inline fragments whose type condition applies (the inline
   fragment's selection set is evaluated for inline_root, e.g. the interface named by the condition) *)
Fixpoint direct_in (sch : aschema) (root : string) (s : sel) : list (string * string) :=
  match s with
  | SSpread fn false => [(fn, root)]
  | SInline tc false sub =>
      match inline_root sch tc root with
      | Some rt => flat_map (direct_in sch rt) sub
      | None => []
      end
  | _ => []
  end.
Definition direct_at (sch : aschema) (root : string) (ss : list sel) : list (string * string) :=
  flat_map (direct_in sch root) ss.

(* fragments spread directly and UNCONDITIONALLY in a selection set *)
Definition direct_spreads (ss : list sel) : list string :=
  flat_map (fun s => match s with SSpread fn false => [fn] | _ => [] end) ss.

(* _parse_type_definition: class skeletons in generation order *)
(* ---- graphql-core NoFragmentCyclesRule (one of the specified rules ariadne-codegen validates operations with):
   no fragment reaches itself through fragment spreads, at any depth of its selection set ---- *)
Fixpoint all_spreads (s : sel) : list string :=
  match s with
  | SField _ _ _ sub => flat_map all_spreads sub
  | SSpread fn _ => [fn]
  | SInline _ _ sub => flat_map all_spreads sub
  end.
Definition spreads_of (ss : list sel) : list string := flat_map all_spreads ss.
Definition spread_graph (frags : list fragdef) : graph :=
  map (fun fd => (fr_name fd, spreads_of (fr_sel fd))) frags.
Definition no_fragment_cycles (frags : list fragdef) : bool :=
  forallb (fun fd => negb (mem (fr_name fd) (frag_bases (spread_graph frags) (fr_name fd)))) frags.

(* the recursive call of _parse_type_definition, abstracted: go_related / go_fields are the two loops of
   _parse_type_definition / _parse_field_selection_set_types over it *)
Definition ptd_fun := string -> string -> list sel -> list string -> st -> option (list cls * st).

Fixpoint go_related (rec : ptd_fun) (rel : list (string * string)) (sub : list sel) (ex : list string) (s : st)
  : option (list cls * st) :=
  match rel with
  | [] => Some ([], s)
  | (cn', tn') :: r =>
      match rec cn' tn' sub ex s with
      | None => None
      | Some (c1, s1) =>
          match go_related rec r sub ex s1 with
          | None => None
          | Some (c2, s2) => Some ((c1 ++ c2)%list, s2)
          end
      end
  end.

Fixpoint go_fields (rec : ptd_fun) (f : nat) (sch : aschema) (frags : list fragdef) (snake : bool)
                   (cn tn : string) (fs : list sel) (s : st) : option (list cls * st) :=
  match fs with
  | [] => Some ([], s)
  | SField al nm mx sub :: r =>
      let key := match al with Some a => a | None => nm end in
      let cn' := (cn ++ pascal_s (field_py_name snake key))%string in
      let s0 := {| st_public := st_public s; st_mix := st_mix s; st_unp := st_unp s;
                   st_imports := (st_imports s ++ mx)%list |} in
      let rel :=
        match field_type sch tn nm with
        | Some T => match sub with [] => Some [] | _ => related f sch frags cn' T sub end
        | None => if String.eqb nm typename_field then Some [] else None  (* ParsingError *)
        end in
      match rel with
      | None => None
      | Some rl =>
          match go_related rec rl sub (extra_bases mx) s0 with
          | None => None
          | Some (c1, s1) =>
              match go_fields rec f sch frags snake cn tn r s1 with
              | None => None
              | Some (c2, s2) => Some ((c1 ++ c2)%list, s2)
              end
          end
      end
  | _ :: r => go_fields rec f sch frags snake cn tn r s      (* resolve returns fields only *)
  end.

Fixpoint ptd (fuel : nat) (sch : aschema) (frags : list fragdef) (g : graph) (snake : bool)
             (cn tn : string) (ss : list sel) (extra : list string) (s : st) : option (list cls * st) :=
  match fuel with
  | 0 => None
  | S f =>
      if mem cn (st_public s) then Some ([], s)
      else
        match resolve f sch frags false ss tn (st_unp s) with
        | None => None
        | Some (fields, mix, unp') =>
            let s1 := {| st_public := (st_public s ++ [cn])%list; st_mix := (st_mix s ++ mix)%list;
                         st_unp := unp'; st_imports := st_imports s |} in
            let me := {| c_name := cn; c_type := tn; c_bases := class_bases g mix extra;
                         c_frags := sort_uniq mix; c_direct := direct_spreads ss;
                         c_bfrags := sort_uniq (reduced g mix); c_direct_at := direct_at sch tn ss |} in
            match go_fields (ptd f sch frags g snake) f sch frags snake cn tn fields s1 with
            | None => None
            | Some (extras, s2) => Some (me :: extras, s2)
            end
        end
  end.

(* one ResultTypesGenerator *)
Definition gen_op (fuel : nat) (sch : aschema) (frags : list fragdef) (g : graph) (snake : bool) (o : opdef)
  : option (list cls * st) :=
  ptd fuel sch frags g snake (pascal_s (o_name o)) (o_root o) (o_sel o) (extra_bases (o_mixins o))
      {| st_public := []; st_mix := []; st_unp := []; st_imports := o_mixins o |}.

Definition gen_frag (fuel : nat) (sch : aschema) (frags : list fragdef) (g : graph) (snake : bool) (fd : fragdef)
  : option (list cls * st) :=
  if unpack_fragment sch fd None then Some ([], st0)
  else ptd fuel sch frags g snake (pascal_s (fr_name fd)) (fr_on fd) (fr_sel fd) (extra_bases (fr_mixins fd))
           {| st_public := []; st_mix := []; st_unp := []; st_imports := fr_mixins fd |}.

(* ---- the fragments module ---- *)
Definition deps_of (tbl : list (string * list string)) (n : string) : list string :=
  match lookup n tbl with Some d => d | None => [] end.

(* FragmentsGenerator.generate: worklist over sorted names; a mixin of a generated fragment that is
   not in the name set yet is added (F11 fix).  Returns the final name set (insertion order) and the
   generation order (= keys of dependencies_dict). *)
Fixpoint add_new (cands names : list string) : list string * list string :=   (* (added, names') *)
  match cands with
  | [] => ([], names)
  | c :: r => if mem c names then add_new r names
              else let (a, n') := add_new r (names ++ [c])%list in (c :: a, n')
  end.

Fixpoint work (fuel : nat) (tbl : list (string * list string)) (queue names done : list string)
  : option (list string * list string) :=
  match queue with
  | [] => Some (names, done)
  | n :: q =>
      match fuel with
      | 0 => None
      | S f => let (added, names') := add_new (sort_uniq (deps_of tbl n)) names in
               work f tbl (q ++ added)%list names' (done ++ [n])%list
      end
  end.

(* _get_sorted_fragments_names.  dict = the generated names (keys of dependencies_dict): visiting a
   name outside it is a KeyError (None).  o = iteration order of a dependency set: since /repo 93e79d6
   the code iterates sorted(dependencies_dict[name]), i.e. o = id_oracle (sort_uniq is applied before o);
   the oracle is kept because toposort_sound holds for every iteration order. *)
Definition oracle := string -> list string -> list string.

Fixpoint visit (fuel : nat) (tbl : list (string * list string)) (dict : list string) (o : oracle)
               (s : list string * list string) (n : string) : option (list string * list string) :=
  match fuel with
  | 0 => None
  | S f =>
      let (vis, out) := s in
      if mem n vis then Some s
      else if negb (mem n dict) then None
      else match fold_opt (visit f tbl dict o) (o n (sort_uniq (deps_of tbl n))) ((vis ++ [n])%list, out) with
           | Some (vis', out') => Some (vis', (out' ++ [n])%list)
           | None => None
           end
  end.

Definition toposort (tbl : list (string * list string)) (dict : list string) (o : oracle)
                    (names : list string) : option (list string) :=
  match fold_opt (visit (2 + List.length names) tbl dict o) (isort names) ([], []) with
  | Some (_, out) => Some out
  | None => None
  end.

(* iteration order supplied from outside: used only if it is a duplicate-free rearrangement *)
Fixpoint nodup_b (l : list string) : bool :=
  match l with [] => true | x :: r => negb (mem x r) && nodup_b r end.
Definition table_oracle (t : list (string * list string)) : oracle :=
  fun n d => match lookup n t with
             | Some l => if nodup_b l && (List.length d <=? List.length l) && forallb (fun x => mem x d) l
                         then l else d
             | None => d
             end.
Definition id_oracle : oracle := fun _ d => d.

(* package.py: exclude_names = unpacked - used_as_mixins;  fragments.py: names = all - excluded, sorted *)
Definition exclude_of (unp mix : list string) : list string :=
  filter (fun n => mem n unp && negb (mem n mix)) (nodup string_dec unp).
Definition start_names (names exclude : list string) : list string :=
  isort (filter (fun n => negb (mem n exclude)) (nodup string_dec names)).

(* ---- the package ---- *)
Record fragmod := { fm_names : list string;        (* _fragments_names after generation *)
                    fm_generated : list string;    (* generation order *)
                    fm_order : list string;        (* sorted names (class order) *)
                    fm_classes : list (string * list cls);
                    fm_imports : list mixin_dir }.     (* @mixin imports of the module: those of EVERY generated
                                                         fragment, re-added ones included *)

(* imports.extend(generator.get_imports()) for every generated fragment *)
Definition module_imports_of (imps : list (string * list mixin_dir)) (generated : list string) : list mixin_dir :=
  flat_map (fun n => match lookup n imps with Some l => l | None => [] end) generated.

Record package := { pk_ops : list (string * list cls * st);
                    pk_exclude : list string;
                    pk_frag_table : list (string * list string);      (* fragment -> its mixins *)
                    pk_module : option fragmod }.

Fixpoint all_some {X} (l : list (option X)) : option (list X) :=
  match l with
  | [] => Some []
  | Some x :: r => match all_some r with Some xs => Some (x :: xs) | None => None end
  | None :: _ => None
  end.

(* the base graph of the document: what _get_fragment_bases recomputes on demand *)
Definition top_graph (fuel : nat) (sch : aschema) (frags : list fragdef) : option graph :=
  all_some (map (fun fd => match resolve fuel sch frags false (fr_sel fd) (fr_on fd) [] with
                           | Some (_, mix, _) => Some (fr_name fd, mix)
                           | None => None end) frags).

Definition generate_package (fuel : nat) (sch : aschema) (frags : list fragdef) (ops : list opdef)
                            (snake : bool) (o : oracle) : option package :=
  match top_graph fuel sch frags with
  | None => None
  | Some g =>
  match all_some (map (gen_op fuel sch frags g snake) ops),
        all_some (map (gen_frag fuel sch frags g snake) frags) with
  | Some rops, Some rfrags =>
      let mix_all := flat_map (fun r => st_mix (snd r)) rops in
      let unp_all := flat_map (fun r => st_unp (snd r)) rops in
      let names := map fr_name frags in
      let exclude := exclude_of unp_all mix_all in
      let tbl := combine names (map (fun r => sort_uniq (st_mix (snd r))) rfrags) in
      let opsr := combine (map o_name ops) rops in
      let opsr' := map (fun x => (fst x, fst (snd x), snd (snd x))) opsr in
      match start_names names exclude with
      | [] => Some {| pk_ops := opsr'; pk_exclude := exclude; pk_frag_table := tbl; pk_module := None |}
      | start =>
          match work (1 + List.length names) tbl start start [] with
          | None => None
          | Some (fnames, done) =>
              match toposort tbl done o fnames with
              | None => None
              | Some order =>
                  let classes := map (fun n => (n, match lookup n (combine names (map fst rfrags)) with
                                                   | Some c => c | None => [] end)) order in
                  Some {| pk_ops := opsr'; pk_exclude := exclude; pk_frag_table := tbl;
                          pk_module := Some {| fm_names := fnames; fm_generated := done;
                                               fm_order := order; fm_classes := classes;
                                               fm_imports := module_imports_of
                                                 (combine names (map (fun r => st_imports (snd r)) rfrags)) done |} |}
              end
          end
      end
  | _, _ => None
  end
  end.

(* A class statement `class X(A, B)` in which B is a subclass of A is rejected by Python's C3
   linearisation (TypeError at import).  hazard1: some generated class lists a fragment base before
   another fragment base whose own class has it as a direct base.  (Former finding C08-MRO; after fix
   959c464 it is a regression predicate: Properties/C08.v shows it false on the old witness and
   C08_bases_no_ancestor proves the pattern impossible.) *)
Definition top_frags (m : fragmod) (f : string) : list string :=
  match lookup f (fm_classes m) with Some (c :: _) => c_bfrags c | _ => [] end.
Fixpoint before_derived (m : fragmod) (fs : list string) : bool :=
  match fs with
  | [] => false
  | a :: r => existsb (fun b => mem a (top_frags m b)) r || before_derived m r
  end.
Definition mro_hazard1 (p : package) : bool :=
  match pk_module p with
  | None => false
  | Some m =>
      existsb (fun r => existsb (fun c => before_derived m (c_bfrags c)) (snd (fst r))) (pk_ops p)
      || existsb (fun nc => existsb (fun c => before_derived m (c_bfrags c)) (snd nc)) (fm_classes m)
  end.

(* ---- sexp interface ---- *)
Local Open Scope string_scope.

Definition dPair (e : sexp) : option (string * string) :=
  match e with L [A a; A b] => Some (a, b) | _ => None end.

(* selections:  (f alias|none name ((from import)...) (sub...)) | (s name cond) | (i tcond cond (sub...)) *)
Fixpoint dSel (e : sexp) : option sel :=
  let dsub := (fix go (l : list sexp) : option (list sel) :=
                 match l with
                 | [] => Some []
                 | x :: r => match dSel x, go r with Some v, Some vs => Some (v :: vs) | _, _ => None end
                 end) in
  match e with
  | L [A "f"; al; A nm; mx; L sub] =>
      match dOpt dStr al, dList dPair mx, dsub sub with
      | Some a, Some m, Some s => Some (SField a nm m s)
      | _, _, _ => None end
  | L [A "s"; A fn; c] => match dB c with Some b => Some (SSpread fn b) | None => None end
  | L [A "i"; A tc; c; L sub] => match dB c, dsub sub with Some b, Some s => Some (SInline tc b s) | _, _ => None end
  | _ => None
  end.

Definition dKind (e : sexp) : option tkind :=
  match e with
  | L [A "obj"; i] => option_map KObj (dStrs i)
  | L [A "iface"; i] => option_map KIface (dStrs i)
  | L [A "union"; m] => option_map KUnion (dStrs m)
  | A "leaf" => Some KLeaf
  | _ => None
  end.

Definition dSchema (e : sexp) : option aschema :=
  match e with
  | L [ts; fs] =>
      match dList (fun x => match x with L [A n; k] => option_map (pair n) (dKind k) | _ => None end) ts,
            dList (fun x => match x with L [A n; f] => option_map (pair n) (dList dPair f) | _ => None end) fs with
      | Some t, Some f => Some {| s_types := t; s_fields := f |}
      | _, _ => None end
  | _ => None
  end.

Definition dFrag (e : sexp) : option fragdef :=
  match e with
  | L [A n; A on; mx; ss] =>
      match dList dPair mx, dList dSel ss with
      | Some m, Some s => Some {| fr_name := n; fr_on := on; fr_mixins := m; fr_sel := s |}
      | _, _ => None end
  | _ => None
  end.

Definition dOp (e : sexp) : option opdef :=
  match e with
  | L [A n; A root; mx; ss] =>
      match dList dPair mx, dList dSel ss with
      | Some m, Some s => Some {| o_name := n; o_root := root; o_mixins := m; o_sel := s |}
      | _, _ => None end
  | _ => None
  end.

Definition dTable (e : sexp) : option (list (string * list string)) :=
  dList (fun x => match x with L [A n; l] => option_map (pair n) (dStrs l) | _ => None end) e.

Definition sCls (c : cls) : sexp :=
  L [A (c_name c); A (c_type c); sStrs (c_bases c); sStrs (c_frags c); sStrs (c_direct c); sStrs (c_bfrags c);
     L (map (fun p => L [A (fst p); A (snd p)]) (c_direct_at c))].
Definition sPairs (l : list mixin_dir) : sexp := L (map (fun p => L [A (fst p); A (snd p)]) l).
Definition sTable (t : list (string * list string)) : sexp := L (map (fun p => L [A (fst p); sStrs (snd p)]) t).

Definition sPackage (p : package) : sexp :=
  L [ L (map (fun r => match r with (n, cs, s) =>
              L [A n; L (map sCls cs); sStrs (sort_uniq (st_mix s)); sStrs (sort_uniq (st_unp s));
                 sPairs (st_imports s)] end) (pk_ops p));
      sStrs (pk_exclude p);
      sTable (pk_frag_table p);
      match pk_module p with
      | None => A "none"
      | Some m => L [A "some"; L [sStrs (fm_names m); sStrs (fm_generated m); sStrs (fm_order m);
                                  L (map (fun nc => L [A (fst nc); L (map sCls (snd nc))]) (fm_classes m));
                                  sPairs (fm_imports m)]]
      end ].

(* (package fuel schema (frag...) (op...) snake oracle-table)      -> (some <package>) | none
   (toposort table (dict...) (names...) oracle-table)              -> (some (order...)) | none
   (work table (start names...))                                   -> (some ((names...) (generated...))) | none
   (sorted (names...))                                             -> (names...)   [K2: Python sorted()]
   (nocycles (frag...))                                            -> t | f        [K2: NoFragmentCyclesRule]
   (pascal s) *)
Definition run_fragments (e : sexp) : sexp :=
  match e with
  | L [A "package"; fu; sc; fr; ops; sn; orc] =>
      match dNat fu, dSchema sc, dList dFrag fr, dList dOp ops, dB sn, dTable orc with
      | Some f, Some s, Some fs, Some os, Some b, Some t =>
          sOpt sPackage (generate_package f s fs os b (table_oracle t))
      | _, _, _, _, _, _ => sErr "package args" end
  | L [A "toposort"; tb; di; ns; orc] =>
      match dTable tb, dStrs di, dStrs ns, dTable orc with
      | Some t, Some d, Some n, Some o => sOpt sStrs (toposort t d (table_oracle o) n)
      | _, _, _, _ => sErr "toposort args" end
  | L [A "work"; tb; ns] =>
      match dTable tb, dStrs ns with
      | Some t, Some n =>
          let start := isort n in
          match work (1 + List.length t + List.length n) t start start [] with
          | Some (a, b) => L [A "some"; L [sStrs a; sStrs b]]
          | None => A "none" end
      | _, _ => sErr "work args" end
  | L [A "nocycles"; fr] =>
      match dList dFrag fr with Some fs => sB (no_fragment_cycles fs) | None => sErr "nocycles args" end
  | L [A "sorted"; ns] => match dStrs ns with Some n => sStrs (sort_uniq n) | None => sErr "sorted args" end
  | L [A "pascal"; A s] => A (pascal_s s)
  | _ => sErr "fragments: bad command"
  end.
