(* Reference semantics: which JSON values a spec-conformant, error-free GraphQL execution can return
   for a selection set (GraphQL spec 6.3 CollectFields / 6.4 CompleteValue), as an executable checker.

   @skip/@include: variable values are not modelled; a node under a conditional directive (its own, or
   an enclosing fragment's) MAY be absent.  The set accepted here therefore over-approximates the
   conformant responses in one respect only (independent presence of conditional siblings), which makes
   statements of the form "every conformant response is accepted" stronger, never weaker.
   Tied to graphql-core by K2: every response produced by execute_sync must satisfy conf_op, and every
   single-point corruption of it must not. *)
From Coq Require Import List String Ascii Bool ZArith.
From AC Require Import Base.Sexp Base.Json Gql.Schema.
Import ListNotations.
Local Open Scope string_scope.
Local Open Scope list_scope.

(* a scope: selections together with "everything here may be skipped" *)
Definition scope := (bool * list sel)%type.

Record cnode := { n_key : string; n_name : string; n_cond : bool; n_sub : option (list sel) }.

Definition type_applies (S : schema) (rt tcond : string) : bool :=
  String.eqb rt tcond || mem rt (possible_types S tcond).

Definition cnode_of (under : bool) (al : option string) (n : string) (c : bool) (sub : option (list sel))
  : cnode :=
  {| n_key := match al with Some a => a | None => n end; n_name := n; n_cond := under || c; n_sub := sub |}.

(* one selection; [rec under' sels'] collects a fragment body *)
Definition collect_step (rec : bool -> list sel -> option (list cnode)) (S : schema) (frs : list fragdef)
           (rt : string) (under : bool) (acc : option (list cnode)) (s : sel) : option (list cnode) :=
  match acc with
  | None => None
  | Some l =>
      match s with
      | SField al n c _ sub => Some (l ++ [cnode_of under al n c sub])
      | SSpread fn c =>
          match lookup_frag frs fn with
          | None => None
          | Some f =>
              if type_applies S rt (fr_on f)
              then match rec (under || c) (fr_sel f) with
                   | Some l' => Some (l ++ l') | None => None end
              else Some l
          end
      | SInline tc c sub =>
          if (match tc with None => true | Some t => type_applies S rt t end)
          then match rec (under || c) sub with
               | Some l' => Some (l ++ l') | None => None end
          else Some l
      end
  end.

(* CollectFields for runtime object type rt, flattening fragments that apply *)
Fixpoint collect (fuel : nat) (S : schema) (frs : list fragdef) (rt : string) (under : bool)
         (sels : list sel) : option (list cnode) :=
  match fuel with
  | O => None
  | S fuel' => fold_left (collect_step (collect fuel' S frs rt) S frs rt under) sels (Some [])
  end.

Definition collect_scopes (fuel : nat) (S : schema) (frs : list fragdef) (rt : string) (scs : list scope)
  : option (list cnode) :=
  fold_left (fun acc sc =>
    match acc, collect fuel S frs rt (fst sc) (snd sc) with
    | Some l, Some l' => Some (l ++ l') | _, _ => None end) scs (Some []).

Fixpoint keys_in_order (l : list cnode) (seen : list string) : list string :=
  match l with
  | [] => []
  | n :: r => if mem (n_key n) seen then keys_in_order r seen
              else n_key n :: keys_in_order r (n_key n :: seen)
  end.

Definition leaf_conf (S : schema) (n : string) (d : tdef) (j : json) : bool :=
  match d with
  | DEnum vs => match j with JStr s => mem s vs | _ => false end
  | DScalar =>
      if String.eqb n "Int" then match j with JInt _ => true | _ => false end
      else if String.eqb n "Float" then match j with JInt _ | JFloat _ => true | _ => false end
      else if (String.eqb n "String" || String.eqb n "ID")%bool then match j with JStr _ => true | _ => false end
      else if String.eqb n "Boolean" then match j with JBool _ => true | _ => false end
      else true      (* custom scalar: any non-null value *)
  | _ => false
  end.

Definition field_type_on (S : schema) (rt fname : string) : option gtype :=
  if String.eqb fname "__typename" then Some (TNonNull (TNamed "String"))
  else match lookup_type S rt with
       | Some d => match type_fields d with Some fs => assoc fname fs | None => None end
       | None => None
       end.

(* the object case of CompleteValue, given the checker [rec] for field values:
   kv has exactly the collected response keys (conditional ones may be absent), each value conforms *)
Definition sub_scopes (ns : list cnode) : list scope :=
  (* a node's sub-selection is certainly active when the node is unconditional or is the only node of
     its response key *)
  let single := match ns with [_] => true | _ => false end in
  flat_map (fun n => match n_sub n with
                     | Some sl => [(n_cond n && negb single, sl)]
                     | None => [] end) ns.

Definition conf_key (rec : gtype -> list scope -> json -> bool) (S : schema) (rt : string)
           (nodes : list cnode) (kv : list (string * json)) (k : string) : bool :=
  let ns := filter (fun n => String.eqb (n_key n) k) nodes in
  match jlookup k kv with
  | None => forallb n_cond ns
  | Some v =>
      match ns with
      | [] => false
      | n0 :: _ =>
          if String.eqb (n_name n0) "__typename"
          then match v with JStr s => String.eqb s rt | _ => false end
          else match field_type_on S rt (n_name n0) with
               | None => false
               | Some ft => rec ft (sub_scopes ns) v
               end
      end
  end.

(* [extra_ok]: response keys outside the collected set are tolerated (false for GraphQL conformance;
   true describes what a pydantic model with extra=ignore can at best enforce, see Properties/C05.v) *)
Definition conf_obj_gen (extra_ok : bool) (rec : gtype -> list scope -> json -> bool) (S : schema)
           (rt : string) (nodes : option (list cnode)) (kv : list (string * json)) : bool :=
  match nodes with
  | None => false
  | Some nodes =>
      let keys := keys_in_order nodes [] in
      (extra_ok || forallb (fun k => mem (fst k) keys) kv) && forallb (conf_key rec S rt nodes kv) keys
  end.

Definition conf_obj_with := conf_obj_gen false.

(* the runtime types considered at an abstract position.  [self_ok] additionally admits an INTERFACE's own
   name: no GraphQL execution reports it, but the Literal of the generated base class contains it
   (finding F8), so the relaxed relation of Properties/C05.v has to *)
Definition abs_candidates (self_ok : bool) (S : schema) (n : string) : list string :=
  if self_ok
  then (match lookup_type S n with Some (DInterface _ _) => [n] | _ => [] end) ++ possible_types S n
  else possible_types S n.

(* CompleteValue, parametric in the leaf-value predicate [leafp], in [extra_ok] and in [self_ok] *)
Fixpoint conf_val_gen (leafp : schema -> string -> tdef -> json -> bool) (extra_ok self_ok : bool)
         (fuel : nat) (S : schema) (frs : list fragdef) (t : gtype) (scs : list scope) (j : json)
  : bool :=
  match fuel with
  | O => false
  | S fuel' =>
      let conf_obj (rt : string) (kv : list (string * json)) : bool :=
        conf_obj_gen extra_ok (conf_val_gen leafp extra_ok self_ok fuel' S frs) S rt
                     (collect_scopes fuel' S frs rt scs) kv in
      match t with
      | TNonNull t' => match j with JNull => false | _ => conf_val_gen leafp extra_ok self_ok fuel' S frs t' scs j end
      | TList t' => match j with
                    | JNull => true
                    | JArr l => forallb (conf_val_gen leafp extra_ok self_ok fuel' S frs t' scs) l
                    | _ => false end
      | TNamed n =>
          match j with
          | JNull => true
          | _ =>
              match lookup_type S n with
              | Some (DObject _ _) => match j with JObj kv => conf_obj n kv | _ => false end
              | Some (DInterface _ _) | Some (DUnion _) =>
                  match j with
                  | JObj kv => existsb (fun rt => conf_obj rt kv) (abs_candidates self_ok S n)
                  | _ => false end
              | Some d => leafp S n d j
              | None => false
              end
          end
      end
  end.

(* the conformant responses: GraphQL's leaf coercion results, no extra keys *)
Definition conf_val := conf_val_gen leaf_conf false false.

(* the data member of a response to an operation whose root type is root *)
Definition conf_op_gen (leafp : schema -> string -> tdef -> json -> bool) (extra_ok self_ok : bool)
           (fuel : nat) (S : schema) (frs : list fragdef) (root : string) (sels : list sel) (j : json)
  : bool :=
  match j with
  | JNull => false
  | _ => conf_val_gen leafp extra_ok self_ok fuel S frs (TNonNull (TNamed root)) [(false, sels)] j
  end.

Definition conf_op := conf_op_gen leaf_conf false false.
