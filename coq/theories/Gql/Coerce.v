(* GraphQL input types, coerced values and the specification of variable coercion
   (spec 6.1.2 CoerceVariableValues + 3.x "Input Coercion" of every input type kind).
   Reference semantics only: tied to graphql-core's get_variable_values by K2 on every run.
   Executable definitions only (proofs in Proofs/ConvertP.v). *)
From Coq Require Import List String Ascii ZArith Bool.
From AC Require Import Base.Sexp Base.Json.
Import ListNotations.
Local Open Scope string_scope.

Inductive gtype := TNamed (n : string) | TList (t : gtype) | TNonNull (t : gtype).

Inductive cvalue :=
| CNull
| CInt (z : Z)
| CFloat (lexeme : string)
| CStr (s : string)
| CBool (b : bool)
| CEnum (v : string)
| CCustom (j : json)            (* custom scalar: the raw JSON value reaches the scalar's parse_value *)
| CList (l : list cvalue)
| CObj (kv : list (string * cvalue)).

Record ifield := { if_name : string; if_type : gtype; if_default : option cvalue }.

(* configuration of a custom scalar ([tool.ariadne-codegen.scalars.X]); None fields = key absent *)
Record scalar_cfg := { sc_type : string; sc_ser : option string; sc_parse : option string;
                       sc_import : option string }.

Inductive builtin := BInt | BFloat | BString | BBoolean | BID.

Inductive tdef :=
| DBuiltin (b : builtin)
| DCustom (cfg : option scalar_cfg)      (* None: scalar not configured *)
| DEnum (vals : list string)
| DInput (fs : list ifield).

Definition schema := list (string * tdef).

Definition builtin_of (n : string) : option builtin :=
  if String.eqb n "Int" then Some BInt else if String.eqb n "Float" then Some BFloat
  else if String.eqb n "String" then Some BString else if String.eqb n "Boolean" then Some BBoolean
  else if String.eqb n "ID" then Some BID else None.

Fixpoint assoc {X} (k : string) (l : list (string * X)) : option X :=
  match l with
  | [] => None
  | (k', v) :: r => if String.eqb k k' then Some v else assoc k r
  end.

Definition lookup_type (S : schema) (n : string) : option tdef :=
  match builtin_of n with
  | Some b => Some (DBuiltin b)
  | None => assoc n S
  end.

Definition is_nonnull (t : gtype) : bool := match t with TNonNull _ => true | _ => false end.

Fixpoint named_of (t : gtype) : string :=
  match t with TNamed n => n | TList t' => named_of t' | TNonNull t' => named_of t' end.

Fixpoint mem_str (s : string) (l : list string) : bool :=
  match l with [] => false | x :: r => String.eqb s x || mem_str s r end.

Fixpoint nodup_str (l : list string) : bool :=
  match l with [] => true | x :: r => negb (mem_str x r) && nodup_str r end.

Section MapOpt.
  Context {X Y : Type} (f : X -> option Y).
  Fixpoint map_opt (l : list X) : option (list Y) :=
    match l with
    | [] => Some []
    | x :: r => match f x, map_opt r with Some y, Some ys => Some (y :: ys) | _, _ => None end
    end.
End MapOpt.

Definition int32 (z : Z) : bool := (Z.leb (-2147483648) z && Z.leb z 2147483647)%Z.

Definition coerce_builtin (b : builtin) (j : json) : option cvalue :=
  match b, j with
  | BInt, JInt z => if int32 z then Some (CInt z) else None
  | BFloat, JInt z => Some (CInt z)           (* numerically the same float; lexemes never computed with *)
  | BFloat, JFloat s => Some (CFloat s)
  | BString, JStr s => Some (CStr s)
  | BBoolean, JBool x => Some (CBool x)
  | BID, JStr s => Some (CStr s)
  | BID, JInt z => Some (CStr (z_to_string z))
  | _, _ => None
  end.

(* input object: every provided key must be a field; each field: provided -> coerced (null for a
   non-null type fails inside [co]); absent -> default if any, else error when non-null, else absent *)
Fixpoint coerce_fields (co : gtype -> json -> option cvalue) (fs : list ifield)
         (kv : list (string * json)) : option (list (string * cvalue)) :=
  match fs with
  | [] => Some []
  | f :: r =>
      match jlookup (if_name f) kv with
      | Some j => match co (if_type f) j, coerce_fields co r kv with
                  | Some c, Some cs => Some ((if_name f, c) :: cs) | _, _ => None end
      | None => match if_default f with
                | Some d => option_map (cons (if_name f, d)) (coerce_fields co r kv)
                | None => if is_nonnull (if_type f) then None else coerce_fields co r kv
                end
      end
  end.

Definition keys_known (fs : list ifield) (kv : list (string * json)) : bool :=
  forallb (fun p => mem_str (fst p) (map if_name fs)) kv.

(* fuel: one unit per type constructor / value level; None when exhausted (never a success) *)
Fixpoint coerce (n : nat) (S : schema) (t : gtype) (j : json) : option cvalue :=
  match n with
  | O => None
  | Datatypes.S n' =>
      match t with
      | TNonNull t' =>
          match j with JNull => None | _ => if is_nonnull t' then None else coerce n' S t' j end
      | TList t' =>
          match j with
          | JNull => Some CNull
          | JArr l => option_map CList (map_opt (coerce n' S t') l)
          | _ => option_map (fun c => CList [c]) (coerce n' S t' j)
          end
      | TNamed nm =>
          match j with
          | JNull => Some CNull
          | _ =>
              match lookup_type S nm with
              | Some (DBuiltin b) => coerce_builtin b j
              | Some (DCustom _) => Some (CCustom j)
              | Some (DEnum vals) =>
                  match j with JStr s => if mem_str s vals then Some (CEnum s) else None | _ => None end
              | Some (DInput fs) =>
                  match j with
                  | JObj kv => if keys_known fs kv && nodup_str (map fst kv)
                               then option_map CObj (coerce_fields (coerce n' S) fs kv) else None
                  | _ => None
                  end
              | None => None
              end
          end
      end
  end.

Record vardef := { v_name : string; v_type : gtype; v_default : option cvalue }.

(* CoerceVariableValues: keys of [provided] that are not variables are ignored *)
Fixpoint coerce_vars (n : nat) (S : schema) (vs : list vardef) (provided : list (string * json))
  : option (list (string * cvalue)) :=
  match vs with
  | [] => Some []
  | v :: r =>
      match jlookup (v_name v) provided with
      | Some j => match coerce n S (v_type v) j, coerce_vars n S r provided with
                  | Some c, Some cs => Some ((v_name v, c) :: cs) | _, _ => None end
      | None => match v_default v with
                | Some d => option_map (cons (v_name v, d)) (coerce_vars n S r provided)
                | None => if is_nonnull (v_type v) then None else coerce_vars n S r provided
                end
      end
  end.

(* ---- sexp codecs ---- *)
Fixpoint gtype_of_sexp (e : sexp) : option gtype :=
  match e with
  | L [A "n"; A s] => Some (TNamed s)
  | L [A "l"; t] => option_map TList (gtype_of_sexp t)
  | L [A "nn"; t] => option_map TNonNull (gtype_of_sexp t)
  | _ => None
  end.

Fixpoint cvalue_to_sexp (c : cvalue) : sexp :=
  match c with
  | CNull => A "n"
  | CInt z => L [A "i"; sZ z]
  | CFloat s => L [A "f"; A s]
  | CStr s => L [A "s"; A s]
  | CBool b => L [A "b"; sB b]
  | CEnum v => L [A "e"; A v]
  | CCustom j => L [A "c"; json_to_sexp j]
  | CList l => L (A "a" :: map cvalue_to_sexp l)
  | CObj kv => L (A "o" :: map (fun p => L [A (fst p); cvalue_to_sexp (snd p)]) kv)
  end.

Fixpoint cvalue_of_sexp (e : sexp) : option cvalue :=
  match e with
  | A "n" => Some CNull
  | L [A "i"; z] => option_map CInt (dZ z)
  | L [A "f"; A s] => Some (CFloat s)
  | L [A "s"; A s] => Some (CStr s)
  | L [A "b"; b] => option_map CBool (dB b)
  | L [A "e"; A s] => Some (CEnum s)
  | L [A "c"; j] => option_map CCustom (json_of_sexp j)
  | L (A "a" :: l) =>
      option_map CList
      ((fix go (l : list sexp) : option (list cvalue) :=
         match l with
         | [] => Some []
         | x :: r => match cvalue_of_sexp x, go r with
                     | Some v, Some vs => Some (v :: vs) | _, _ => None end
         end) l)
  | L (A "o" :: l) =>
      option_map CObj
      ((fix go (l : list sexp) : option (list (string * cvalue)) :=
         match l with
         | [] => Some []
         | L [A k; x] :: r => match cvalue_of_sexp x, go r with
                              | Some v, Some vs => Some ((k, v) :: vs) | _, _ => None end
         | _ => None
         end) l)
  | _ => None
  end.

Definition dOptStr (e : sexp) : option (option string) := dOpt dStr e.

Definition ifield_of_sexp (e : sexp) : option ifield :=
  match e with
  | L [A nm; t; d] =>
      match gtype_of_sexp t, dOpt cvalue_of_sexp d with
      | Some t', Some d' => Some {| if_name := nm; if_type := t'; if_default := d' |}
      | _, _ => None end
  | _ => None
  end.

Definition cfg_of_sexp (e : sexp) : option scalar_cfg :=
  match e with
  | L [A ty; s; p; i] =>
      match dOptStr s, dOptStr p, dOptStr i with
      | Some s', Some p', Some i' =>
          Some {| sc_type := ty; sc_ser := s'; sc_parse := p'; sc_import := i' |}
      | _, _, _ => None end
  | _ => None
  end.

(* (name (custom none|(some cfg))) | (name (enum v...)) | (name (input field...)) *)
Definition tdef_of_sexp (e : sexp) : option (string * tdef) :=
  match e with
  | L [A nm; L [A "custom"; c]] => option_map (fun c' => (nm, DCustom c')) (dOpt cfg_of_sexp c)
  | L [A nm; L (A "enum" :: vs)] => option_map (fun v => (nm, DEnum v)) (dAll dStr vs)
  | L [A nm; L (A "input" :: fs)] => option_map (fun f => (nm, DInput f)) (dAll ifield_of_sexp fs)
  | _ => None
  end.

Definition schema_of_sexp (e : sexp) : option schema := dList tdef_of_sexp e.

Definition vardef_of_sexp (e : sexp) : option vardef :=
  match e with
  | L [A nm; t; d] =>
      match gtype_of_sexp t, dOpt cvalue_of_sexp d with
      | Some t', Some d' => Some {| v_name := nm; v_type := t'; v_default := d' |}
      | _, _ => None end
  | _ => None
  end.

Definition dObjKV (e : sexp) : option (list (string * json)) :=
  match json_of_sexp e with Some (JObj kv) => Some kv | _ => None end.

Definition sBindings (l : list (string * cvalue)) : sexp :=
  L (map (fun p => L [A (fst p); cvalue_to_sexp (snd p)]) l).
