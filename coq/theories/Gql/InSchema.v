(* GraphQL input-side vocabulary (DESIGN §3): type references, constant values, input object
   definitions, and their S-expression decoders.  Definitions only. *)
From Coq Require Import List String Ascii ZArith Bool.
From AC Require Import Base.Sexp Base.Json.
Import ListNotations.
Local Open Scope string_scope.

Inductive gtype := TNamed (n : string) | TList (t : gtype) | TNonNull (t : gtype).

Inductive cvalue :=
| CInt (z : Z) | CFloat (lexeme : string) | CStr (s : string) | CBool (b : bool) | CNull
| CEnum (v : string) | CList (l : list cvalue) | CObj (kv : list (string * cvalue)).

Record ifdef := { i_name : string; i_type : gtype; i_default : option cvalue }.

Inductive tdef := DScalar | DEnum (vals : list string) | DInput (fs : list ifdef).

(* types in graphql-core's type_map order (the order input classes are emitted in) *)
Definition schema := list (string * tdef).

Fixpoint lookup {X} (k : string) (l : list (string * X)) : option X :=
  match l with
  | [] => None
  | (k', v) :: r => if String.eqb k k' then Some v else lookup k r
  end.

Definition mem (x : string) (l : list string) : bool := existsb (String.eqb x) l.

Inductive tkind :=
| KInt | KFloat | KString | KBoolean | KID | KScalar
| KEnum (vals : list string) | KInput (fs : list ifdef) | KUnknown.

Definition kind_of (s : schema) (n : string) : tkind :=
  if n =? "Int" then KInt else if n =? "Float" then KFloat else if n =? "String" then KString
  else if n =? "Boolean" then KBoolean else if n =? "ID" then KID
  else match lookup n s with
       | Some DScalar => KScalar
       | Some (DEnum v) => KEnum v
       | Some (DInput fs) => KInput fs
       | None => KUnknown
       end.

Definition is_nonnull (t : gtype) : bool := match t with TNonNull _ => true | _ => false end.

(* JSON image of a coerced value (enum values by name) *)
Fixpoint json_of_cvalue (c : cvalue) : json :=
  match c with
  | CInt z => JInt z | CFloat s => JFloat s | CStr s => JStr s | CBool b => JBool b | CNull => JNull
  | CEnum v => JStr v
  | CList l => JArr (map json_of_cvalue l)
  | CObj kv => JObj (map (fun p => (fst p, json_of_cvalue (snd p))) kv)
  end.

(* a JSON value taken as a constant (custom scalars keep whatever they are given) *)
Fixpoint cvalue_of_json (j : json) : cvalue :=
  match j with
  | JNull => CNull | JBool b => CBool b | JInt z => CInt z | JFloat s => CFloat s | JStr s => CStr s
  | JArr l => CList (map cvalue_of_json l)
  | JObj kv => CObj (map (fun p => (fst p, cvalue_of_json (snd p))) kv)
  end.

(* ---- S-expression codecs ---- *)
(* gtype:  (n "Name") | (l t) | (nn t) *)
Fixpoint gtype_of_sexp (e : sexp) : option gtype :=
  match e with
  | L [A "n"; A s] => Some (TNamed s)
  | L [A "l"; t] => option_map TList (gtype_of_sexp t)
  | L [A "nn"; t] => option_map TNonNull (gtype_of_sexp t)
  | _ => None
  end.

Fixpoint gtype_to_sexp (t : gtype) : sexp :=
  match t with
  | TNamed s => L [A "n"; A s]
  | TList t => L [A "l"; gtype_to_sexp t]
  | TNonNull t => L [A "nn"; gtype_to_sexp t]
  end.

(* cvalue:  (i z) | (f "lex") | (s "x") | (b t) | null | (e "V") | (l v...) | (o (k v)...) *)
Fixpoint cvalue_of_sexp (e : sexp) : option cvalue :=
  match e with
  | A "null" => Some CNull
  | L [A "i"; z] => option_map CInt (dZ z)
  | L [A "f"; A s] => Some (CFloat s)
  | L [A "s"; A s] => Some (CStr s)
  | L [A "b"; b] => option_map CBool (dB b)
  | L [A "e"; A s] => Some (CEnum s)
  | L (A "l" :: l) =>
      option_map CList
      ((fix go (l : list sexp) : option (list cvalue) :=
         match l with
         | [] => Some []
         | x :: r => match cvalue_of_sexp x, go r with
                     | Some v, Some vs => Some (v :: vs) | _, _ => None end
         end) l)
  | L (A "o" :: l) =>
      option_map CObj
      ((fix go (l : list sexp) : option (list (string * cvalue)) :=
         match l with
         | [] => Some []
         | L [A k; x] :: r => match cvalue_of_sexp x, go r with
                              | Some v, Some vs => Some ((k, v) :: vs) | _, _ => None end
         | _ => None
         end) l)
  | _ => None
  end.

Fixpoint cvalue_to_sexp (c : cvalue) : sexp :=
  match c with
  | CNull => A "null"
  | CInt z => L [A "i"; sZ z]
  | CFloat s => L [A "f"; A s]
  | CStr s => L [A "s"; A s]
  | CBool b => L [A "b"; sB b]
  | CEnum v => L [A "e"; A v]
  | CList l => L (A "l" :: map cvalue_to_sexp l)
  | CObj kv => L (A "o" :: map (fun p => L [A (fst p); cvalue_to_sexp (snd p)]) kv)
  end.

(* field: (name type default?)  default = none | (some cvalue) *)
Definition ifdef_of_sexp (e : sexp) : option ifdef :=
  match e with
  | L [A n; t; d] =>
      match gtype_of_sexp t, dOpt cvalue_of_sexp d with
      | Some t', Some d' => Some {| i_name := n; i_type := t'; i_default := d' |}
      | _, _ => None
      end
  | _ => None
  end.

(* type: (name scalar) | (name enum v...) | (name input field...) *)
Definition tdef_of_sexp (e : sexp) : option (string * tdef) :=
  match e with
  | L [A n; A "scalar"] => Some (n, DScalar)
  | L (A n :: A "enum" :: vs) => option_map (fun v => (n, DEnum v)) (dAll dStr vs)
  | L (A n :: A "input" :: fs) => option_map (fun f => (n, DInput f)) (dAll ifdef_of_sexp fs)
  | _ => None
  end.

Definition schema_of_sexp (e : sexp) : option schema := dList tdef_of_sexp e.
