(* GraphQL block strings (specification side of C02): where a block string ends in a text, and its value
   (BlockStringValue of the specification = graphql-core dedent_block_string_lines: common indentation of the
   lines after the first removed, leading and trailing blank lines dropped). *)
From Coq Require Import List String Ascii Bool Arith.
From AC Require Import Base.Strs Gql.Lex.
Import ListNotations.
Local Open Scope char_scope.
Local Open Scope list_scope.

(* ---- the raw content: from just after the opening quotes to the first unescaped closing quotes ---- *)
Definition la2q (r : chars) : bool := match r with d :: e :: _ => leq d lq && leq e lq | _ => false end.
Definition la3q (r : chars) : bool := match r with d :: e :: g :: _ => leq d lq && leq e lq && leq g lq | _ => false end.

Definition pre_raw (p : chars) (o : option (chars * chars)) : option (chars * chars) :=
  match o with Some (raw, rest) => Some (p ++ raw, rest) | None => None end.

Fixpoint scanb (l : chars) : option (chars * chars) :=
  match l with
  | [] => None
  | c :: r =>
      match r with
      | d :: e :: r2 =>
          if leq c lq && leq d lq && leq e lq then Some ([], r2)
          else match r2 with
               | g :: r3 => if leq c lbs && leq d lq && leq e lq && leq g lq
                            then pre_raw [c; d; e; g] (scanb r3)
                            else pre_raw [c] (scanb r)
               | [] => pre_raw [c] (scanb r)
               end
      | _ => pre_raw [c] (scanb r)
      end
  end.

(* ---- the value ---- *)
Definition is_bw (c : ascii) : bool := leq c " " || leq c (ascii_of_nat 9).

Fixpoint lead (l : chars) : nat :=
  match l with c :: r => if is_bw c then S (lead r) else 0 | [] => 0 end.

Definition blankl (l : chars) : bool := forallb is_bw l.

(* smallest indentation of the non-blank lines; None when there is none (graphql-core: sys.maxsize) *)
Fixpoint common (ls : list chars) : option nat :=
  match ls with
  | [] => None
  | l :: r => if blankl l then common r
              else Some (match common r with None => lead l | Some m => Nat.min (lead l) m end)
  end.

Definition cut (c : option nat) (l : chars) : chars :=
  match c with Some n => skipn n l | None => [] end.

Definition dedent_lines (ls : list chars) : list chars :=
  match ls with [] => [] | l0 :: rest => l0 :: map (cut (common rest)) rest end.

Fixpoint drop_blank_front (ls : list chars) : list chars :=
  match ls with l :: r => if blankl l then drop_blank_front r else ls | [] => [] end.

Definition trim_blank (ls : list chars) : list chars :=
  rev (drop_blank_front (rev (drop_blank_front ls))).

(* str.split on the line feed (block strings printed by graphql-core use no other terminator) *)
Fixpoint split_lf (l : chars) : list chars :=
  match l with
  | [] => [[]]
  | c :: r => if leq c lnl then [] :: split_lf r
              else match split_lf r with x :: xs => (c :: x) :: xs | [] => [[c]] end
  end.

Definition block_value_lines (ls : list chars) : list chars := trim_blank (dedent_lines ls).
Definition block_value (raw : chars) : list chars := block_value_lines (split_lf raw).
