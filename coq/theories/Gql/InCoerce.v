(* Reference semantics (specification): GraphQL input coercion of values in canonical form
   (graphql-core coerce_input_value restricted to canonical inputs: Int as integers, Float as numbers,
   String/ID as strings, enum values by name, lists as lists) and the coerced value of a default
   literal (graphql-core value_from_ast).  Fuel counts value nesting only; None = refused or out of fuel.
   Definitions only. *)
From Coq Require Import List String Ascii ZArith Bool.
From AC Require Import Base.Sexp Base.Json Gql.InSchema.
Import ListNotations.
Local Open Scope string_scope.

Definition int32 (z : Z) : bool := ((-2147483648) <=? z)%Z && (z <=? 2147483647)%Z.

Fixpoint map_opt {X Y} (f : X -> option Y) (l : list X) : option (list Y) :=
  match l with
  | [] => Some []
  | x :: r => match f x, map_opt f r with Some y, Some ys => Some (y :: ys) | _, _ => None end
  end.

(* value_from_ast_untyped: enum literals become their name *)
Fixpoint untyped (c : cvalue) : cvalue :=
  match c with
  | CEnum v => CStr v
  | CList l => CList (map untyped l)
  | CObj kv => CObj (map (fun p => (fst p, untyped (snd p))) kv)
  | c => c
  end.

Definition leaf_default (s : schema) (nm : string) (lit : cvalue) : option cvalue :=
  match kind_of s nm, lit with
  | KInt, CInt z => if int32 z then Some (CInt z) else None
  | KFloat, CInt z => Some (CInt z)            (* numerically equal; floats are never computed with *)
  | KFloat, CFloat l => Some (CFloat l)
  | KString, CStr x => Some (CStr x)
  | KBoolean, CBool b => Some (CBool b)
  | KID, CStr x => Some (CStr x)
  | KID, CInt z => Some (CStr (z_to_string z))
  | KEnum vals, CEnum v => if mem v vals then Some (CEnum v) else None
  | KScalar, l => Some (untyped l)
  | _, _ => None
  end.


(* the per-field loop shared by value_from_ast and coerce_input_value on input objects:
   look = the provided value of a field, co = coercion of a provided value, dflt = coerced default *)
Fixpoint fields_with {X} (look : string -> option X) (co : gtype -> X -> option cvalue)
  (dflt : gtype -> cvalue -> option cvalue) (fs : list ifdef) : option (list (string * cvalue)) :=
  match fs with
  | [] => Some []
  | f :: r =>
      match look (i_name f) with
      | Some x =>
          match co (i_type f) x, fields_with look co dflt r with
          | Some v, Some vs => Some ((i_name f, v) :: vs) | _, _ => None end
      | None =>
          match i_default f with
          | Some d =>
              match dflt (i_type f) d, fields_with look co dflt r with
              | Some v, Some vs => Some ((i_name f, v) :: vs) | _, _ => None end
          | None => if is_nonnull (i_type f) then None else fields_with look co dflt r
          end
      end
  end.

(* value_from_ast(literal, type) *)
Fixpoint coerced_default (n : nat) (s : schema) : gtype -> cvalue -> option cvalue :=
  fix go (t : gtype) (lit : cvalue) {struct t} : option cvalue :=
    match t with
    | TNonNull t' => match lit with CNull => None | _ => go t' lit end
    | TList t' =>
        match lit with
        | CNull => Some CNull
        | CList l => match n with
                     | 0 => None
                     | S n' => option_map CList (map_opt (coerced_default n' s t') l)
                     end
        | _ => option_map (fun v => CList [v]) (go t' lit)
        end
    | TNamed nm =>
        match lit with
        | CNull => Some CNull
        | _ =>
          match kind_of s nm with
          | KInput fs =>
              match lit, n with
              | CObj kv, S n' =>
                  option_map CObj (fields_with (fun k => lookup k kv) (coerced_default n' s) (coerced_default n' s) fs)
              | _, _ => None
              end
          | _ => leaf_default s nm lit
          end
        end
    end.

Definition leaf_input (s : schema) (nm : string) (j : json) : option cvalue :=
  match kind_of s nm, j with
  | KInt, JInt z => if int32 z then Some (CInt z) else None
  | KFloat, JInt z => Some (CInt z)
  | KFloat, JFloat l => Some (CFloat l)
  | KString, JStr x => Some (CStr x)
  | KBoolean, JBool b => Some (CBool b)
  | KID, JStr x => Some (CStr x)
  | KEnum vals, JStr v => if mem v vals then Some (CEnum v) else None
  | KScalar, j => Some (cvalue_of_json j)
  | _, _ => None
  end.

Definition known_keys (fs : list ifdef) (kv : list (string * json)) : bool :=
  forallb (fun p => mem (fst p) (map i_name fs)) kv.

(* coerce_input_value(value, type) on canonical-form values *)
Fixpoint coerce_input (n : nat) (s : schema) : gtype -> json -> option cvalue :=
  fix go (t : gtype) (j : json) {struct t} : option cvalue :=
    match t with
    | TNonNull t' => match j with JNull => None | _ => go t' j end
    | TList t' =>
        match j with
        | JNull => Some CNull
        | JArr l => match n with
                    | 0 => None
                    | S n' => option_map CList (map_opt (coerce_input n' s t') l)
                    end
        | _ => None
        end
    | TNamed nm =>
        match j with
        | JNull => Some CNull
        | _ =>
          match kind_of s nm with
          | KInput fs =>
              match j, n with
              | JObj kv, S n' =>
                  if known_keys fs kv then
                  option_map CObj (fields_with (fun k => jlookup k kv) (coerce_input n' s) (coerced_default n' s) fs)
                  else None
              | _, _ => None
              end
          | _ => leaf_input s nm j
          end
        end
    end.

(* ---- canonical form of a provided value (used by the converse theorem, Proofs/ConverseP.v) ---- *)
(* find_field is Model/Inputs.v's; the specification has its own copy to stay independent of the model *)
Fixpoint spec_find_field (k : string) (fs : list ifdef) : option ifdef :=
  match fs with
  | [] => None
  | f :: r => if String.eqb k (i_name f) then Some f else spec_find_field k r
  end.

Definition canon_leaf (s : schema) (nm : string) (j : json) : bool :=
  match kind_of s nm, j with
  | KInt, JInt z => int32 z
  | KFloat, JInt _ | KFloat, JFloat _ | KString, JStr _ | KID, JStr _ | KBoolean, JBool _ | KEnum _, JStr _ => true
  | KScalar, JNull => false
  | KScalar, _ => true
  | _, _ => false
  end.

(* canonical kinds at the leaves, known keys in objects; nothing about nullability, required fields, enum
   membership or list shape — that is what the model has to enforce itself *)
Fixpoint canon (s : schema) (j : json) : gtype -> bool :=
  fix go (t : gtype) : bool :=
    match t with
    | TNonNull t' =>
        match j, t' with
        | JNull, TNamed nm => match kind_of s nm with KScalar => false | _ => true end
        | _, _ => go t'
        end
    | TList t' => match j with JArr l => forallb (fun x => canon s x t') l | _ => true end
    | TNamed nm =>
        match j with
        | JNull => true
        | JObj kv =>
            match kind_of s nm with
            | KInput fs =>
                known_keys fs kv &&
                forallb (fun p => match spec_find_field (fst p) fs with
                                  | Some f => canon s (snd p) (i_type f)
                                  | None => false end) kv
            | KScalar => true
            | _ => false
            end
        | _ => canon_leaf s nm j
        end
    end.

