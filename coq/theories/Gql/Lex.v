(* A small GraphQL lexer (specification side of C02): the tokens that matter for "same document" —
   punctuators, the spread, words (names, numbers, keywords: maximal runs of word characters), strings
   (raw content between the quotes, escapes kept as written) and block strings (raw content); white space,
   line terminators, commas and comments are ignored.  Structural on the text, no fuel. *)
From Coq Require Import List String Ascii Bool Arith.
From AC Require Import Base.Strs.
Import ListNotations.
Local Open Scope char_scope.
Local Open Scope list_scope.

Inductive tok := TP (c : ascii) | TSpread | TW (w : chars) | TS (raw : chars) | TB (raw : chars).

Inductive lst := LD | LW (acc : chars) | LS (acc : chars) | LSE (acc : chars) | LC | LB (acc : chars).

Definition lq : ascii := """".
Definition lbs : ascii := "\".
Definition lnl : ascii := ascii_of_nat 10.
Definition lcr : ascii := ascii_of_nat 13.

Definition leq (a b : ascii) : bool := Ascii.eqb a b.
Definition is_wordc (c : ascii) : bool :=
  is_alnum c || leq c "_" || leq c "+" || leq c "-" || leq c ".".
Definition is_punct (c : ascii) : bool :=
  existsb (leq c) (list_ascii_of_string "!$&():=@[]{|}").
Definition is_ign (c : ascii) : bool :=
  leq c " " || leq c lnl || leq c lcr || leq c "," || leq c (ascii_of_nat 9) || (Nat.ltb 127 (nat_of_ascii c)).

Definition cons_tok (t : tok) (o : option (list tok)) : option (list tok) :=
  match o with Some l => Some (t :: l) | None => None end.
Definition emit (pre : option tok) (o : option (list tok)) : option (list tok) :=
  match pre with Some t => cons_tok t o | None => o end.

Fixpoint lex (st : lst) (l : chars) {struct l} : option (list tok) :=
  match l with
  | [] =>
      match st with
      | LD | LC => Some []
      | LW acc => Some [TW (rev acc)]
      | LS _ | LSE _ | LB _ => None
      end
  | c :: r =>
      (* c read in the default state, after [pre] was emitted *)
      let dflt (pre : option tok) : option (list tok) :=
        if leq c lq then
          match r with
          | d :: e :: r2 => if leq d lq && leq e lq then emit pre (lex (LB []) r2) else emit pre (lex (LS []) r)
          | _ => emit pre (lex (LS []) r)
          end
        else if leq c "#" then emit pre (lex LC r)
        else if leq c "." then
          match r with
          | d :: e :: r2 => if leq d "." && leq e "." then emit pre (cons_tok TSpread (lex LD r2))
                            else emit pre (lex (LW [c]) r)
          | _ => emit pre (lex (LW [c]) r)
          end
        else if is_punct c then emit pre (cons_tok (TP c) (lex LD r))
        else if is_ign c then emit pre (lex LD r)
        else if is_wordc c then emit pre (lex (LW [c]) r)
        else None in
      match st with
      | LD => dflt None
      | LW acc =>
          if leq c "." then
            match r with
            | d :: e :: r2 => if leq d "." && leq e "." then dflt (Some (TW (rev acc))) else lex (LW (c :: acc)) r
            | _ => lex (LW (c :: acc)) r
            end
          else if is_wordc c then lex (LW (c :: acc)) r else dflt (Some (TW (rev acc)))
      | LS acc =>
          if leq c lq then cons_tok (TS (rev acc)) (lex LD r)
          else if leq c lbs then lex (LSE (c :: acc)) r
          else if leq c lnl || leq c lcr then None
          else lex (LS (c :: acc)) r
      | LSE acc => if leq c lnl || leq c lcr then None else lex (LS (c :: acc)) r
      | LC => if leq c lnl || leq c lcr then lex LD r else lex LC r
      | LB acc =>
          match r with
          | d :: e :: r2 =>
              if leq c lq && leq d lq && leq e lq then cons_tok (TB (rev acc)) (lex LD r2)
              else match r2 with
                   | g :: r3 => if leq c lbs && leq d lq && leq e lq && leq g lq
                                then lex (LB (g :: e :: d :: c :: acc)) r3
                                else lex (LB (c :: acc)) r
                   | [] => lex (LB (c :: acc)) r
                   end
          | _ => lex (LB (c :: acc)) r
          end
      end
  end.

Definition tokens (l : chars) : option (list tok) := lex LD l.
