(* GraphQL schema / selection vocabulary shared by the result-side models (C01, C05, ...). *)
From Coq Require Import List String Ascii Bool.
From AC Require Import Base.Sexp.
Import ListNotations.
Local Open Scope string_scope.

Inductive gtype := TNamed (n : string) | TList (t : gtype) | TNonNull (t : gtype).

Inductive tdef :=
| DScalar
| DEnum (vals : list string)
| DObject (ifaces : list string) (fields : list (string * gtype))
| DInterface (ifaces : list string) (fields : list (string * gtype))
| DUnion (members : list string)
| DInput.

Record schema := { s_types : list (string * tdef);     (* in type_map order *)
                   s_query : option string; s_mutation : option string; s_subscription : option string }.

Fixpoint assoc {X} (k : string) (l : list (string * X)) : option X :=
  match l with
  | [] => None
  | (k', v) :: r => if String.eqb k k' then Some v else assoc k r
  end.

Definition mem (x : string) (l : list string) : bool := existsb (String.eqb x) l.

Definition lookup_type (S : schema) (n : string) : option tdef := assoc n (s_types S).

Definition is_abstract (d : tdef) : bool :=
  match d with DInterface _ _ | DUnion _ => true | _ => false end.

(* graphql-core get_possible_types: union members; object implementations of an interface *)
Definition possible_types (S : schema) (n : string) : list string :=
  match lookup_type S n with
  | Some (DUnion ms) => ms
  | Some (DInterface _ _) =>
      flat_map (fun p => match snd p with
                         | DObject ifs _ => if mem n ifs then [fst p] else []
                         | _ => [] end) (s_types S)
  | _ => []
  end.

(* graphql-core is_sub_type(abstract, maybe_sub) *)
Definition is_sub_type (S : schema) (abs sub : string) : bool :=
  match lookup_type S abs with
  | Some (DUnion ms) => mem sub ms
  | Some (DInterface _ _) =>
      match lookup_type S sub with
      | Some (DObject ifs _) | Some (DInterface ifs _) => mem abs ifs
      | _ => false
      end
  | _ => false
  end.

Definition type_fields (d : tdef) : option (list (string * gtype)) :=
  match d with DObject _ fs | DInterface _ fs => Some fs | _ => None end.

(* ---- selections ---- *)
Inductive sel :=
| SField (alias : option string) (name : string) (cond : bool) (mixins : list string)
         (sub : option (list sel))
| SSpread (frag : string) (cond : bool)
| SInline (tcond : option string) (cond : bool) (sub : list sel).

Record fragdef := { fr_name : string; fr_on : string; fr_mixins : list string; fr_sel : list sel }.

Definition lookup_frag (frs : list fragdef) (n : string) : option fragdef :=
  find (fun f => String.eqb (fr_name f) n) frs.

(* ---- decoders ---- *)
Fixpoint d_gtype (e : sexp) : option gtype :=
  match e with
  | L [A "n"; A s] => Some (TNamed s)
  | L [A "l"; t] => option_map TList (d_gtype t)
  | L [A "nn"; t] => option_map TNonNull (d_gtype t)
  | _ => None
  end.

Definition d_field (e : sexp) : option (string * gtype) :=
  match e with
  | L [A n; t] => option_map (fun t => (n, t)) (d_gtype t)
  | _ => None
  end.

Definition d_tdef (e : sexp) : option tdef :=
  match e with
  | L [A "scalar"] => Some DScalar
  | L (A "enum" :: vs) => option_map DEnum (dAll dStr vs)
  | L [A "object"; ifs; fs] =>
      match dList dStr ifs, dList d_field fs with
      | Some i, Some f => Some (DObject i f) | _, _ => None end
  | L [A "interface"; ifs; fs] =>
      match dList dStr ifs, dList d_field fs with
      | Some i, Some f => Some (DInterface i f) | _, _ => None end
  | L (A "union" :: ms) => option_map DUnion (dAll dStr ms)
  | L [A "input"] => Some DInput
  | _ => None
  end.

Definition d_schema (e : sexp) : option schema :=
  match e with
  | L [A "schema"; ts; q; m; s] =>
      match dList (fun x => match x with
                            | L [A n; d] => option_map (fun d => (n, d)) (d_tdef d)
                            | _ => None end) ts,
            dOpt dStr q, dOpt dStr m, dOpt dStr s with
      | Some t, Some q, Some m, Some s =>
          Some {| s_types := t; s_query := q; s_mutation := m; s_subscription := s |}
      | _, _, _, _ => None
      end
  | _ => None
  end.

Fixpoint d_sel (e : sexp) : option sel :=
  let fix all (l : list sexp) : option (list sel) :=
    match l with
    | [] => Some []
    | x :: r => match d_sel x, all r with Some v, Some vs => Some (v :: vs) | _, _ => None end
    end in
  match e with
  | L [A "f"; al; A n; c; ms; sub] =>
      match dOpt dStr al, dB c, dList dStr ms with
      | Some al, Some c, Some ms =>
          match sub with
          | A "none" => Some (SField al n c ms None)
          | L [A "some"; L l] => option_map (fun s => SField al n c ms (Some s)) (all l)
          | _ => None
          end
      | _, _, _ => None
      end
  | L [A "s"; A n; c] => option_map (SSpread n) (dB c)
  | L [A "i"; tc; c; L l] =>
      match dOpt dStr tc, dB c, all l with
      | Some tc, Some c, Some s => Some (SInline tc c s)
      | _, _, _ => None
      end
  | _ => None
  end.

Definition d_frag (e : sexp) : option fragdef :=
  match e with
  | L [A n; A on; ms; sl] =>
      match dList dStr ms, dList d_sel sl with
      | Some ms, Some sl => Some {| fr_name := n; fr_on := on; fr_mixins := ms; fr_sel := sl |}
      | _, _ => None
      end
  | _ => None
  end.
