(* Full executable-document AST (arguments, directives, values, variable definitions), used by C02.
   Gql/Schema.v's [sel] is the abstraction the result-side models need; [proj_sel] maps to it. *)
From Coq Require Import List String Ascii Bool.
From AC Require Import Base.Sexp Gql.Schema.
Import ListNotations.
Local Open Scope string_scope.

Inductive value :=
| VVar (n : string) | VInt (lex : string) | VFloat (lex : string) | VStr (block : bool) (s : string)
| VBool (b : bool) | VNull | VEnum (s : string)
| VList (l : list value) | VObj (kv : list (string * value)).

Record directive := { d_name : string; d_args : list (string * value) }.

(* [id] identifies the selection set of a field (given by the harness, preorder over the document);
   FAuto is the __typename field node inserted by the generator (never authored). *)
Inductive fsel :=
| FField (id : nat) (alias : option string) (name : string) (args : list (string * value))
         (dirs : list directive) (sub : option (list fsel))
| FSpread (name : string) (dirs : list directive)
| FInline (tcond : option string) (dirs : list directive) (sub : list fsel)
| FAuto.

Record vardef := { v_name : string; v_type : gtype; v_default : option value; v_dirs : list directive }.
Record opdef := { o_kind : string; o_name : string; o_vars : list vardef; o_dirs : list directive;
                  o_sel : list fsel }.
Record fdef := { fd_name : string; fd_on : string; fd_dirs : list directive; fd_sel : list fsel }.

Inductive ddef := XOp (o : opdef) | XFrag (f : fdef).

Definition lookup_fdef (frs : list fdef) (n : string) : option fdef :=
  find (fun f => String.eqb (fd_name f) n) frs.

(* ---- projection to the abstract selections of Gql/Schema.v ---- *)
Definition is_cond_dir (d : directive) : bool :=
  String.eqb (d_name d) "skip" || String.eqb (d_name d) "include".
Definition has_cond (ds : list directive) : bool := existsb is_cond_dir ds.
Definition mixin_imports (ds : list directive) : list string :=
  flat_map (fun d => if String.eqb (d_name d) "mixin"
                     then match assoc "import" (d_args d) with
                          | Some (VStr _ s) => [s] | _ => ["?"] end
                     else []) ds.

Fixpoint proj_sel (s : fsel) : sel :=
  match s with
  | FField _ al n _ ds sub =>
      SField al n (has_cond ds) (mixin_imports ds)
             (match sub with Some l => Some (map proj_sel l) | None => None end)
  | FSpread n ds => SSpread n (has_cond ds)
  | FInline tc ds sub => SInline tc (has_cond ds) (map proj_sel sub)
  | FAuto => SField None "__typename" false [] None
  end.

Definition proj_frag (f : fdef) : fragdef :=
  {| fr_name := fd_name f; fr_on := fd_on f; fr_mixins := mixin_imports (fd_dirs f);
     fr_sel := map proj_sel (fd_sel f) |}.

(* ---- sexp decoders ---- *)
Fixpoint d_value (e : sexp) : option value :=
  let fix all (l : list sexp) : option (list value) :=
    match l with
    | [] => Some []
    | x :: r => match d_value x, all r with Some v, Some vs => Some (v :: vs) | _, _ => None end
    end in
  let fix kvs (l : list sexp) : option (list (string * value)) :=
    match l with
    | [] => Some []
    | L [A k; x] :: r => match d_value x, kvs r with Some v, Some vs => Some ((k, v) :: vs) | _, _ => None end
    | _ => None
    end in
  match e with
  | L [A "var"; A n] => Some (VVar n)
  | L [A "int"; A s] => Some (VInt s)
  | L [A "float"; A s] => Some (VFloat s)
  | L [A "str"; b; A s] => option_map (fun b => VStr b s) (dB b)
  | L [A "bool"; b] => option_map VBool (dB b)
  | L [A "null"] => Some VNull
  | L [A "enum"; A s] => Some (VEnum s)
  | L (A "list" :: l) => option_map VList (all l)
  | L (A "obj" :: l) => option_map VObj (kvs l)
  | _ => None
  end.

Definition d_arg (e : sexp) : option (string * value) :=
  match e with
  | L [A k; v] => option_map (fun v => (k, v)) (d_value v)
  | _ => None
  end.

Definition d_dir (e : sexp) : option directive :=
  match e with
  | L [A n; args] => option_map (fun a => {| d_name := n; d_args := a |}) (dList d_arg args)
  | _ => None
  end.

Fixpoint d_fsel (e : sexp) : option fsel :=
  let fix all (l : list sexp) : option (list fsel) :=
    match l with
    | [] => Some []
    | x :: r => match d_fsel x, all r with Some v, Some vs => Some (v :: vs) | _, _ => None end
    end in
  match e with
  | L [A "f"; id; al; A n; args; ds; sub] =>
      match dNat id, dOpt dStr al, dList d_arg args, dList d_dir ds with
      | Some id, Some al, Some args, Some ds =>
          match sub with
          | A "none" => Some (FField id al n args ds None)
          | L [A "some"; L l] => option_map (fun s => FField id al n args ds (Some s)) (all l)
          | _ => None
          end
      | _, _, _, _ => None
      end
  | L [A "s"; A n; ds] => option_map (FSpread n) (dList d_dir ds)
  | L [A "i"; tc; ds; L l] =>
      match dOpt dStr tc, dList d_dir ds, all l with
      | Some tc, Some ds, Some s => Some (FInline tc ds s)
      | _, _, _ => None
      end
  | L [A "auto"] => Some FAuto
  | _ => None
  end.

Definition d_vardef (e : sexp) : option vardef :=
  match e with
  | L [A n; t; dv; ds] =>
      match d_gtype t, dOpt d_value dv, dList d_dir ds with
      | Some t, Some dv, Some ds => Some {| v_name := n; v_type := t; v_default := dv; v_dirs := ds |}
      | _, _, _ => None
      end
  | _ => None
  end.

Definition d_opdef (e : sexp) : option opdef :=
  match e with
  | L [A "op"; A kind; A name; vs; ds; sl] =>
      match dList d_vardef vs, dList d_dir ds, dList d_fsel sl with
      | Some vs, Some ds, Some sl =>
          Some {| o_kind := kind; o_name := name; o_vars := vs; o_dirs := ds; o_sel := sl |}
      | _, _, _ => None
      end
  | _ => None
  end.

Definition d_fdef (e : sexp) : option fdef :=
  match e with
  | L [A "frag"; A name; A on; ds; sl] =>
      match dList d_dir ds, dList d_fsel sl with
      | Some ds, Some sl => Some {| fd_name := name; fd_on := on; fd_dirs := ds; fd_sel := sl |}
      | _, _ => None
      end
  | _ => None
  end.

(* ---- sexp encoders (ids are not printed: the output is compared with a parsed document) ---- *)
Fixpoint e_gtype (t : gtype) : sexp :=
  match t with
  | TNamed n => L [A "n"; A n]
  | TList t => L [A "l"; e_gtype t]
  | TNonNull t => L [A "nn"; e_gtype t]
  end.

Fixpoint e_value (v : value) : sexp :=
  match v with
  | VVar n => L [A "var"; A n]
  | VInt s => L [A "int"; A s]
  | VFloat s => L [A "float"; A s]
  | VStr b s => L [A "str"; sB b; A s]
  | VBool b => L [A "bool"; sB b]
  | VNull => L [A "null"]
  | VEnum s => L [A "enum"; A s]
  | VList l => L (A "list" :: map e_value l)
  | VObj kv => L (A "obj" :: map (fun p => L [A (fst p); e_value (snd p)]) kv)
  end.

Definition e_arg (p : string * value) : sexp := L [A (fst p); e_value (snd p)].
Definition e_dir (d : directive) : sexp := L [A (d_name d); L (map e_arg (d_args d))].

Fixpoint e_fsel (s : fsel) : sexp :=
  match s with
  | FField _ al n args ds sub =>
      L [A "f"; sOpt A al; A n; L (map e_arg args); L (map e_dir ds);
         match sub with Some l => L [A "some"; L (map e_fsel l)] | None => A "none" end]
  | FSpread n ds => L [A "s"; A n; L (map e_dir ds)]
  | FInline tc ds sub => L [A "i"; sOpt A tc; L (map e_dir ds); L (map e_fsel sub)]
  | FAuto => L [A "f"; A "none"; A "__typename"; L []; L []; A "none"]
  end.

Definition e_vardef (v : vardef) : sexp :=
  L [A (v_name v); e_gtype (v_type v); sOpt e_value (v_default v); L (map e_dir (v_dirs v))].

Definition e_ddef (d : ddef) : sexp :=
  match d with
  | XOp o => L [A "op"; A (o_kind o); A (o_name o); L (map e_vardef (o_vars o));
                L (map e_dir (o_dirs o)); L (map e_fsel (o_sel o))]
  | XFrag f => L [A "frag"; A (fd_name f); A (fd_on f); L (map e_dir (fd_dirs f));
                  L (map e_fsel (fd_sel f))]
  end.
