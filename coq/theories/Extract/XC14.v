From Coq Require Import Extraction ExtrOcamlBasic.
From AC Require Import Base.Sexp Model.Builder.
Definition dispatch := run_builder.
Extraction "model.ml" dispatch.
