From Coq Require Import Extraction ExtrOcamlBasic.
From AC Require Import Base.Sexp Model.Scalars.
Definition dispatch := run_scalars.
Extraction "model.ml" dispatch.
