From Coq Require Import Extraction ExtrOcamlBasic.
From AC Require Import Base.Sexp Model.ParseLogRun.
Definition dispatch := run_parselog.
Extraction "model.ml" dispatch.
