From Coq Require Import Extraction ExtrOcamlBasic.
From AC Require Import Base.Sexp Model.Convert.
Definition dispatch := run_args.
Extraction "model.ml" dispatch.
