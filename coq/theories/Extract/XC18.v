From Coq Require Import Extraction ExtrOcamlBasic.
From AC Require Import Base.Sexp Model.Names Model.Scopes.
Definition dispatch := run_scopes.
Extraction "model.ml" dispatch.
