From Coq Require Import Extraction ExtrOcamlBasic.
From AC Require Import Base.Sexp Model.Names.
Definition dispatch := run_names.
Extraction "model.ml" dispatch.
