From Coq Require Import Extraction ExtrOcamlBasic.
From AC Require Import Base.Sexp Model.Client.
Definition dispatch := run_client.
Extraction "model.ml" dispatch.
