From Coq Require Import Extraction ExtrOcamlBasic.
From AC Require Import Base.Sexp Model.Prune.
Definition dispatch := run_prune.
Extraction "model.ml" dispatch.
