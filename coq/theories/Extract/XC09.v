From Coq Require Import Extraction ExtrOcamlBasic.
From AC Require Import Base.Sexp Model.Prune Model.PruneDoc.
Definition dispatch := run_prune_doc.
Extraction "model.ml" dispatch.
