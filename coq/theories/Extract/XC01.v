From Coq Require Import Extraction ExtrOcamlBasic.
From AC Require Import Base.Sexp Model.Results.
Definition dispatch := run_results.
Extraction "model.ml" dispatch.
