From Coq Require Import Extraction ExtrOcamlBasic.
From AC Require Import Base.Sexp Model.InputsRun.
Definition dispatch := run_inputs.
Extraction "model.ml" dispatch.
