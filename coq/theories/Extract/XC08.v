From Coq Require Import Extraction ExtrOcamlBasic.
From AC Require Import Base.Sexp Model.Fragments.
Definition dispatch := run_fragments.
Extraction "model.ml" dispatch.
