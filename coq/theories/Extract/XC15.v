From Coq Require Import Extraction ExtrOcamlBasic.
From AC Require Import Base.Sexp Model.Plugins.
Definition dispatch := run_plugins.
Extraction "model.ml" dispatch.
