From Coq Require Import Extraction ExtrOcamlBasic.
From AC Require Import Base.Sexp Model.C02Run.
Definition dispatch := run_c02.
Extraction "model.ml" dispatch.
