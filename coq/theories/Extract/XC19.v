From Coq Require Import Extraction ExtrOcamlBasic List String.
From AC Require Import Base.Sexp Model.Loader Model.Introspect Model.TopLevel Model.LexTop.
Import ListNotations.
Local Open Scope string_scope.
Definition dispatch (e : sexp) : sexp :=
  match e with
  | L (A "loader" :: r) => run_loader (L r)
  | L (A "introspect" :: r) => run_introspect (L r)
  | L (A "toplevel" :: r) => run_toplevel (L r)
  | L (A "lextop" :: r) => run_lextop (L r)
  | _ => sErr "C19: bad engine command"
  end.
Extraction "model.ml" dispatch.
