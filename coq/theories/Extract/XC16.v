From Coq Require Import Extraction ExtrOcamlBasic.
From AC Require Import Base.Sexp Model.SchemaGen.
Definition dispatch := run_schemagen.
Extraction "model.ml" dispatch.
