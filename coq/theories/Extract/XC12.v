From Coq Require Import Extraction ExtrOcamlBasic.
From AC Require Import Base.Sexp Model.GetData.
Definition dispatch := run_getdata.
Extraction "model.ml" dispatch.
