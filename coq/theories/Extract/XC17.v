From Coq Require Import Extraction ExtrOcamlBasic.
From AC Require Import Base.Sexp Model.Settings Model.Pipeline.
Definition dispatch := run_pipeline.
Extraction "model.ml" dispatch.
