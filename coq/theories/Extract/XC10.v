From Coq Require Import Extraction ExtrOcamlBasic.
From AC Require Import Base.Sexp Model.Nondet.
Definition dispatch := run_nondet.
Extraction "model.ml" dispatch.
