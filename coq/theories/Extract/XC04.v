From Coq Require Import Extraction ExtrOcamlBasic.
From AC Require Import Base.Sexp Model.Package.
Definition dispatch := run_package.
Extraction "model.ml" dispatch.
