From Coq Require Import Extraction ExtrOcamlBasic.
From AC Require Import Base.Sexp Model.Ws.
Definition dispatch := run_ws_cmd.
Extraction "model.ml" dispatch.
